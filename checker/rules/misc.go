package rules

import (
	"fmt"
	"go/ast"
	"go/token"
	"go/types"
	"strings"

	"verif/checker/cfgx"
)

// ---------------------------------------------------------------- MP1 paste lookup

// RuleMP1: a macro fetched for expansion was found.
func RuleMP1(c *Ctx) {
	sc := c.Run.Begin("MP1", "every value read from the macro table for expansion is used only where the lookup reported it found (PASTE of an undefined macro is an error, not a nil dereference)", 1)
	defer sc.End()
	pk := c.P.Pkg("core")
	macro := c.Field("core", "JApiCore", "macro")
	if pk == nil || macro == nil {
		sc.Undecided("anchors", "-", "unresolved anchor: core.JApiCore.macro")
		return
	}
	info := pk.TypesInfo
	n := 0
	c.P.Funcs(func(p *pkgT, fd *ast.FuncDecl) {
		if p != pk {
			return
		}
		cf := c.CFG(pk, fd.Body)
		ast.Inspect(fd.Body, func(x ast.Node) bool {
			as, ok := x.(*ast.AssignStmt)
			if !ok || len(as.Rhs) != 1 {
				return true
			}
			ix, ok := ast.Unparen(as.Rhs[0]).(*ast.IndexExpr)
			if !ok || !fieldSel(info, ix.X, macro) {
				return true
			}
			vid, ok := as.Lhs[0].(*ast.Ident)
			if !ok || vid.Name == "_" {
				return true
			}
			vobj := info.ObjectOf(vid)
			var okObj types.Object
			if len(as.Lhs) == 2 {
				if oid, ok := as.Lhs[1].(*ast.Ident); ok {
					okObj = info.ObjectOf(oid)
				}
			}
			match := func(e ast.Expr) bool {
				id, ok := ast.Unparen(e).(*ast.Ident)
				return ok && info.ObjectOf(id) == vobj
			}
			for _, us := range usesOf(fd.Body, match) {
				n++
				key := fmt.Sprintf("%s:macro-value#%d", c.P.DeclName(fd), n)
				gen := func(fa cfgx.Fact) bool {
					if id, ok := ast.Unparen(fa.Expr).(*ast.Ident); ok && okObj != nil && info.ObjectOf(id) == okObj && fa.Truth {
						return true
					}
					return cfgx.IsNilCheck(info, fa, us.Target)
				}
				if cf.MustAt(us.Node, gen, nil, nil) {
					sc.Holds(key, c.P.Pos(us.Node.Pos()), "used only after the lookup succeeded")
				} else {
					sc.Violation(key, c.P.Pos(us.Node.Pos()), "a macro fetched from the table is used without testing that it exists: PASTE of an undefined macro dereferences nil instead of reporting 'macro not found'")
				}
			}
			return true
		})
	})
	// direct uses core.macro[name].X without a lookup variable are covered by N-style rules; require at least one guarded read
	if n == 0 {
		sc.Undecided("reads", "-", "no guarded read of the macro table found")
	}
}

// ---------------------------------------------------------------- IM1 base immutability

// RuleIM1: inheriting from a base type never writes into the base.
func RuleIM1(c *Ctx) {
	sc := c.Run.Begin("IM1", "in the function that inherits properties from a base user type, no store goes through a pointer obtained from the base type (only through value copies): the base types are left as declared", 2)
	defer sc.End()
	unshift := c.Func("catalog", "SchemaContentJSight.Unshift")
	utGet := c.Func("catalog", "UserTypes.Get")
	if unshift == nil || utGet == nil {
		sc.Undecided("anchors", "-", "unresolved anchor: SchemaContentJSight.Unshift / UserTypes.Get")
		return
	}
	done := map[*ast.FuncDecl]bool{}
	for _, cs := range c.callSitesOf(unshift) {
		fd := cs.Decl
		if done[fd] {
			continue
		}
		done[fd] = true
		pk := cs.Pk
		info := pk.TypesInfo
		cf := c.CFG(pk, fd.Body)
		// the base: variables assigned from UserTypes.Get
		base := map[types.Object]bool{}
		ast.Inspect(fd.Body, func(n ast.Node) bool {
			as, ok := n.(*ast.AssignStmt)
			if !ok || len(as.Rhs) != 1 {
				return true
			}
			if call, ok := as.Rhs[0].(*ast.CallExpr); ok && Callee(info, call) == utGet {
				if id, ok := as.Lhs[0].(*ast.Ident); ok {
					base[info.ObjectOf(id)] = true
				}
			}
			return true
		})
		if len(base) == 0 {
			sc.Undecided(c.P.DeclName(fd), c.P.Pos(fd.Pos()), "the base user type lookup was not found")
			continue
		}
		// rootedAtBase: follows aliases; a dereference copy (x := *p) breaks the link
		var rooted func(e ast.Expr, depth int) bool
		rooted = func(e ast.Expr, depth int) bool {
			if depth > 8 {
				return false
			}
			root := cfgx.RootObj(info, e)
			if root == nil {
				return false
			}
			if base[root] {
				return true
			}
			v, ok := root.(*types.Var)
			if !ok || v.IsField() || !cf.AssignedOnce(root) {
				return false
			}
			// definition
			var def ast.Expr
			ast.Inspect(fd.Body, func(n ast.Node) bool {
				if as, ok := n.(*ast.AssignStmt); ok && len(as.Lhs) == len(as.Rhs) {
					for i, l := range as.Lhs {
						if id, ok := l.(*ast.Ident); ok && info.ObjectOf(id) == root {
							def = as.Rhs[i]
						}
					}
				}
				if rs, ok := n.(*ast.RangeStmt); ok {
					if id, ok := rs.Value.(*ast.Ident); ok && info.ObjectOf(id) == root {
						def = rs.X
					}
				}
				return true
			})
			if def == nil {
				return false
			}
			if _, isCopy := ast.Unparen(def).(*ast.StarExpr); isCopy {
				// x := *p : a value copy unless x's type is itself a pointer
				if _, isPtr := v.Type().(*types.Pointer); !isPtr {
					return false
				}
			}
			return rooted(def, depth+1)
		}
		n := 0
		bad := 0
		ast.Inspect(fd.Body, func(x ast.Node) bool {
			as, ok := x.(*ast.AssignStmt)
			if !ok {
				return true
			}
			for _, l := range as.Lhs {
				if _, isId := ast.Unparen(l).(*ast.Ident); isId {
					continue
				}
				n++
				if rooted(l, 0) {
					bad++
					sc.Violation(fmt.Sprintf("%s:store#%d", c.P.DeclName(fd), n), c.P.Pos(as.Pos()), "the store to "+types.ExprString(l)+" goes through a pointer into the base user type: inheriting changes the base as declared (and every other schema that inherits from it)")
				}
			}
			return true
		})
		if bad == 0 {
			sc.Holds(c.P.DeclName(fd), c.P.Pos(fd.Pos()), fmt.Sprintf("%d field stores, none through the base type", n))
			sc.Holds(c.P.DeclName(fd)+":copy", c.P.Pos(fd.Pos()), "inherited nodes are inserted as value copies")
		}
	}
}

// ---------------------------------------------------------------- PS1 path schema checked before use

// RulePS1: path schemas are checked before their children are read; unused
// properties are reported on every path.
func RulePS1(c *Ctx) {
	sc := c.Run.Begin("PS1", "the stage that binds path parameters reads the children of a Path schema only after every Path schema passed the flat-object check (its error returns first), and for each Path directive the 'unused parameters' test follows the binding loop on every path", 2)
	defer sc.End()
	pk := c.P.Pkg("core")
	slot := c.Field("core", "rawPathVariable", "schema")
	content := c.Field("catalog", "Schema", "ContentJSight")
	if pk == nil || slot == nil || content == nil {
		sc.Undecided("anchors", "-", "unresolved anchor: core.rawPathVariable.schema / Schema.ContentJSight")
		return
	}
	info := pk.TypesInfo
	// checker: the function with a Schema parameter that tests TokenType against the object constant and returns errors
	var checker *types.Func
	c.P.Funcs(func(p *pkgT, fd *ast.FuncDecl) {
		if p != pk || fd.Recv != nil {
			return
		}
		self, _ := info.Defs[fd.Name].(*types.Func)
		sig := self.Type().(*types.Signature)
		if sig.Params().Len() != 1 || sig.Results().Len() != 1 || !isErrorType(sig.Results().At(0).Type()) {
			return
		}
		if n, ok := sig.Params().At(0).Type().(*types.Named); !ok || n.Obj().Name() != "Schema" {
			return
		}
		checker = self
	})
	if checker == nil {
		sc.Undecided("checker", "-", "unresolved anchor: the Path schema check func(Schema) error")
		return
	}
	// checkAll: functions that call the checker on every element of rawPathVariables and return its error
	checkAll := map[*types.Func]bool{}
	for _, cs := range c.callSitesOf(checker) {
		if f := declObj(cs); f != nil {
			checkAll[f] = true
		}
	}
	// reader: functions (other than the check-all ones) that read <x>.schema.ContentJSight.<...>
	c.P.Funcs(func(p *pkgT, fd *ast.FuncDecl) {
		if p != pk {
			return
		}
		self, _ := info.Defs[fd.Name].(*types.Func)
		if checkAll[self] || self == checker {
			return
		}
		reads := false
		ast.Inspect(fd.Body, func(n ast.Node) bool {
			if sel, ok := n.(*ast.SelectorExpr); ok {
				if inner, ok := ast.Unparen(sel.X).(*ast.SelectorExpr); ok && info.ObjectOf(inner.Sel) == content {
					if s2, ok := ast.Unparen(inner.X).(*ast.SelectorExpr); ok && info.ObjectOf(s2.Sel) == slot {
						reads = true
					}
				}
			}
			return true
		})
		if !reads {
			return
		}
		// every call site of this reader is dominated by a successful check-all call
		sites := c.callSitesOf(self)
		for i, cs := range sites {
			key := fmt.Sprintf("%s<-%s#%d", self.Name(), c.P.DeclName(cs.Decl), i+1)
			cf := c.CFG(cs.Pk, cs.Body)
			gen := func(fa cfgx.Fact) bool {
				be, ok := ast.Unparen(fa.Expr).(*ast.BinaryExpr)
				if !ok {
					return false
				}
				id, ok := ast.Unparen(be.X).(*ast.Ident)
				if !ok {
					return false
				}
				def, ok := ast.Unparen(cf.Resolve(id)).(*ast.CallExpr)
				if !ok {
					return false
				}
				g := Callee(cs.Pk.TypesInfo, def)
				if g == nil || !checkAll[g] {
					return false
				}
				return (be.Op == token.NEQ && !fa.Truth) || (be.Op == token.EQL && fa.Truth)
			}
			if cf.MustAt(cs.Call, gen, nil, nil) {
				sc.Holds(key, c.P.Pos(cs.Call.Pos()), "runs only after every Path schema passed the flat-object check")
			} else {
				sc.Violation(key, c.P.Pos(cs.Call.Pos()), self.Name()+" reads the children of Path schemas but is not dominated by a successful pass of the Path schema check: a Path body that is not a flat object is read as if it were")
			}
		}
		if len(sites) == 0 {
			sc.Undecided(self.Name(), c.P.Pos(fd.Pos()), "reader of Path schemas has no caller")
		}
		// the unused-parameters test: inside the range over rawPathVariables, after the binding loop, `if len(pp) > 0 { return err }`
		found := false
		ast.Inspect(fd.Body, func(n ast.Node) bool {
			rs, ok := n.(*ast.RangeStmt)
			if !ok {
				return true
			}
			var inner *ast.RangeStmt
			for _, st := range rs.Body.List {
				if r2, ok := st.(*ast.RangeStmt); ok {
					inner = r2
				}
				if ifs, ok := st.(*ast.IfStmt); ok && inner != nil && ifs.Pos() > inner.End() {
					if be, ok := ast.Unparen(ifs.Cond).(*ast.BinaryExpr); ok {
						if _, isLen := lengthExpr(info, be.X); isLen && endsWithErrorReturn(info, ifs.Body) {
							found = true
						}
					}
				}
			}
			return true
		})
		key := self.Name() + ":unused-parameters"
		if found {
			sc.Holds(key, c.P.Pos(fd.Pos()), "after binding, leftover properties of the Path schema are an error for every Path directive")
		} else {
			sc.Violation(key, c.P.Pos(fd.Pos()), "the 'unused parameters' test no longer follows the binding loop: a Path property that matches no {segment} is silently accepted")
		}
	})
}

// ---------------------------------------------------------------- DN1 / AN1 / K2'

// RuleDN1: descriptions reach the catalog only through the normaliser.
func RuleDN1(c *Ctx) {
	sc := c.Run.Begin("DN1", "the catalog's description setters are reached only from the Description handler, and there only after the normaliser ran (its error returns) and the result was tested for emptiness; the stored text is the normaliser's result", 4)
	defer sc.End()
	pk := c.P.Pkg("core")
	cat := c.Named("catalog", "Catalog")
	table := c.handlerTable()
	if pk == nil || cat == nil || table["Description"] == nil {
		sc.Undecided("anchors", "-", "unresolved anchor: handler table entry for Description")
		return
	}
	info := pk.TypesInfo
	handler := table["Description"]
	hfd := c.P.Decl(handler)
	cf := c.CFG(pk, hfd.Body)
	// the normaliser: the package function  func([]byte) ([]byte, error)  called in the handler
	var norm *types.Func
	ast.Inspect(hfd.Body, func(n ast.Node) bool {
		if call, ok := n.(*ast.CallExpr); ok {
			if g := Callee(info, call); g != nil && g.Pkg() == pk.Types {
				sig := g.Type().(*types.Signature)
				if sig.Recv() == nil && sig.Params().Len() == 1 && sig.Results().Len() == 2 && isErrorType(sig.Results().At(1).Type()) {
					if sl, ok := sig.Params().At(0).Type().Underlying().(*types.Slice); ok && isByte(sl.Elem()) {
						norm = g
					}
				}
			}
		}
		return true
	})
	if norm == nil {
		sc.Undecided("normaliser", c.P.Pos(hfd.Pos()), "the description normaliser call was not found in the handler")
		return
	}
	// setters
	var setters []*types.Func
	for i := 0; i < cat.NumMethods(); i++ {
		if m := cat.Method(i); strings.HasPrefix(m.Name(), "AddDescriptionTo") {
			setters = append(setters, m)
		}
	}
	if len(setters) < 3 {
		sc.Undecided("setters", "-", "fewer than three description setters found")
	}
	below := map[*types.Func]bool{}
	for _, f := range reachStatic(c.P, pk, []*types.Func{handler}) {
		below[f] = true
	}
	for _, s := range setters {
		for i, cs := range c.callSitesOf(s) {
			key := fmt.Sprintf("%s<-%s#%d", s.Name(), c.P.DeclName(cs.Decl), i+1)
			caller := declObj(cs)
			if caller == nil || !below[caller] {
				sc.Violation(key, c.P.Pos(cs.Call.Pos()), "a description is stored from outside the Description handler: it bypasses the normaliser")
				continue
			}
			sc.Holds(key, c.P.Pos(cs.Call.Pos()), "called under the Description handler")
		}
	}
	// inside the handler: every call that hands the text on is dominated by the normaliser's success and the emptiness test
	var bbObj, errObj types.Object
	ast.Inspect(hfd.Body, func(n ast.Node) bool {
		as, ok := n.(*ast.AssignStmt)
		if !ok || len(as.Lhs) != 2 || len(as.Rhs) != 1 {
			return true
		}
		if call, ok := as.Rhs[0].(*ast.CallExpr); ok && Callee(info, call) == norm {
			if a, ok := as.Lhs[0].(*ast.Ident); ok {
				bbObj = info.ObjectOf(a)
			}
			if b, ok := as.Lhs[1].(*ast.Ident); ok {
				errObj = info.ObjectOf(b)
			}
		}
		return true
	})
	n := 0
	ast.Inspect(hfd.Body, func(x ast.Node) bool {
		call, ok := x.(*ast.CallExpr)
		if !ok {
			return true
		}
		g := Callee(info, call)
		if g == nil || !below[g] || g == handler || c.P.Decl(g) == nil || recvNamedOf(g) == nil {
			return true
		}
		// passes a string derived from bb?
		passes := false
		for _, a := range call.Args {
			r := cf.Resolve(a)
			if conv, ok := ast.Unparen(r).(*ast.CallExpr); ok && len(conv.Args) == 1 {
				if id, ok := ast.Unparen(conv.Args[0]).(*ast.Ident); ok && info.ObjectOf(id) == bbObj {
					passes = true
				}
			}
		}
		if !passes {
			return true
		}
		n++
		key := fmt.Sprintf("handler->%s#%d", g.Name(), n)
		genErr := func(fa cfgx.Fact) bool {
			be, ok := ast.Unparen(fa.Expr).(*ast.BinaryExpr)
			if !ok {
				return false
			}
			id, ok := ast.Unparen(be.X).(*ast.Ident)
			return ok && info.ObjectOf(id) == errObj && ((be.Op == token.NEQ && !fa.Truth) || (be.Op == token.EQL && fa.Truth))
		}
		genLen := func(fa cfgx.Fact) bool {
			be, ok := ast.Unparen(fa.Expr).(*ast.BinaryExpr)
			if !ok {
				return false
			}
			lo, ok := lengthExpr(info, be.X)
			if !ok {
				return false
			}
			id, ok := ast.Unparen(lo).(*ast.Ident)
			if !ok || info.ObjectOf(id) != bbObj {
				return false
			}
			return (be.Op == token.EQL && !fa.Truth) || (be.Op == token.NEQ && fa.Truth) || (be.Op == token.GTR && fa.Truth)
		}
		if cf.MustAt(call, genErr, nil, nil) && cf.MustAt(call, genLen, nil, nil) {
			sc.Holds(key, c.P.Pos(call.Pos()), "receives string(normalised text) after the normaliser succeeded and the text was found non-empty")
		} else {
			sc.Violation(key, c.P.Pos(call.Pos()), "the description is handed on without the normaliser's error check or without the emptiness test: a blank description is accepted or an un-normalised text is stored")
		}
		return true
	})
	if n == 0 {
		sc.Undecided("handler", c.P.Pos(hfd.Pos()), "no call handing the normalised text on was found")
	}
}

// RuleAN1: annotations and notes are normalised by one function.
func RuleAN1(c *Ctx) {
	sc := c.Run.Begin("AN1", "every store into Directive.Annotation and SchemaContentJSight.Note takes the result of the one annotation normaliser", 2)
	defer sc.End()
	ann := c.Func("catalog", "Annotation")
	fields := []*types.Var{c.Field("directive", "Directive", "Annotation"), c.Field("catalog", "SchemaContentJSight", "Note")}
	if ann == nil || fields[0] == nil || fields[1] == nil {
		sc.Undecided("anchors", "-", "unresolved anchor: catalog.Annotation / Directive.Annotation / SchemaContentJSight.Note")
		return
	}
	n := 0
	c.P.Funcs(func(pk *pkgT, fd *ast.FuncDecl) {
		info := pk.TypesInfo
		check := func(fld *types.Var, val ast.Expr, at ast.Node) {
			n++
			key := fmt.Sprintf("%s:%s#%d", c.P.DeclName(fd), fld.Name(), n)
			if call, ok := ast.Unparen(val).(*ast.CallExpr); ok && Callee(info, call) == ann {
				sc.Holds(key, c.P.Pos(at.Pos()), "normalised by "+ann.Name())
				return
			}
			// copying an already normalised field of the same kind
			if sel, ok := ast.Unparen(val).(*ast.SelectorExpr); ok && info.ObjectOf(sel.Sel) == fld {
				sc.Holds(key, c.P.Pos(at.Pos()), "copy of an already normalised value")
				return
			}
			if tv, ok := info.Types[val]; ok && tv.Value != nil {
				sc.Holds(key, c.P.Pos(at.Pos()), "constant")
				return
			}
			sc.Violation(key, c.P.Pos(at.Pos()), fld.Name()+" is stored without passing the annotation normaliser: the // and /* */ spellings (or differently spaced texts) give different catalog values")
		}
		ast.Inspect(fd.Body, func(x ast.Node) bool {
			switch s := x.(type) {
			case *ast.AssignStmt:
				for i, l := range s.Lhs {
					for _, f := range fields {
						if fieldSel(info, l, f) && i < len(s.Rhs) {
							check(f, s.Rhs[i], s)
						}
					}
				}
			case *ast.KeyValueExpr:
				if id, ok := s.Key.(*ast.Ident); ok {
					for _, f := range fields {
						if info.ObjectOf(id) == f {
							check(f, s.Value, s)
						}
					}
				}
			}
			return true
		})
	})
}

// RuleK2p: the description look-ahead and the keyword dispatcher use one table.
func RuleK2p(c *Ctx) {
	sc := c.Run.Begin("K2p", "the look-ahead that ends a description (does the next line start with a directive?) and the keyword-to-kind lookup read the same name table, and the scanner's description state calls that look-ahead", 2)
	defer sc.End()
	pk := c.P.Pkg("directive")
	look := c.Func("directive", "IsStartWithDirective")
	kind := c.Func("directive", "NewDirectiveType")
	if pk == nil || look == nil || kind == nil {
		sc.Undecided("anchors", "-", "unresolved anchor: directive.IsStartWithDirective / NewDirectiveType")
		return
	}
	tables := func(f *types.Func) map[*types.Var]bool {
		out := map[*types.Var]bool{}
		for _, g := range reachStatic(c.P, pk, []*types.Func{f}) {
			fd := c.P.Decl(g)
			ast.Inspect(fd.Body, func(n ast.Node) bool {
				if id, ok := n.(*ast.Ident); ok {
					if v, ok := pk.TypesInfo.ObjectOf(id).(*types.Var); ok && v.Parent() == pk.Types.Scope() {
						if _, isSlice := v.Type().Underlying().(*types.Slice); isSlice {
							out[v] = true
						}
					}
				}
				return true
			})
		}
		return out
	}
	a, b := tables(look), tables(kind)
	common := ""
	for v := range a {
		if b[v] {
			common = v.Name()
		}
	}
	if common != "" {
		sc.Holds("table", c.P.Pos(c.P.Decl(look).Pos()), "both read the package-level table "+common)
	} else {
		sc.Violation("table", c.P.Pos(c.P.Decl(look).Pos()), "the description look-ahead and the keyword lookup no longer share one name table: a line can end a description without being a directive the dispatcher knows, or vice versa")
	}
	// the scanner's opaque predicate reaches the look-ahead
	m, _, err := c.Machine()
	if err != nil {
		sc.Undecided("scanner", "-", err.Error())
		return
	}
	spk := c.P.Pkg("scanner")
	found := false
	c.P.Funcs(func(p *pkgT, fd *ast.FuncDecl) {
		if p != spk || m.OpaquePreds[fd.Name.Name] == 0 {
			return
		}
		ast.Inspect(fd.Body, func(n ast.Node) bool {
			if call, ok := n.(*ast.CallExpr); ok && Callee(spk.TypesInfo, call) == look {
				found = true
			}
			return true
		})
	})
	if found {
		sc.Holds("scanner", "-", "the description state's look-ahead predicate calls it")
	} else {
		sc.Violation("scanner", "-", "no scanner predicate calls the directive look-ahead: description text would run over the following directives")
	}
}

func isByte(t types.Type) bool {
	b, ok := t.Underlying().(*types.Basic)
	return ok && b.Kind() == types.Uint8
}
