package rules

import (
	"fmt"
	"go/ast"
	"go/token"
	"go/types"
	"strings"

	"verif/checker/cfgx"
)

// ---------------------------------------------------------------- PQ1

// RulePQ1: the scanner judges a parameter by its unquoted text. The scanner keeps the
// parameter lexemes of the directive it has just read and looks at their values to decide
// how the body that follows is to be read (a schema, a regex, nothing) - the only place in
// the package where the text of a lexeme is read. Every such look goes through Unquote()
// first, so that `regex` and `"regex"` decide alike; a
// comparison of the lexeme's value as written sees the quotes and treats the quoted
// spelling as something else.
func RulePQ1(c *Ctx) {
	sc := c.Run.Begin("PQ1", "in package scanner, every value taken from a lexeme (Lexeme.Value) is unquoted before anything else is done with it", 1)
	defer sc.End()
	pk := c.P.Pkg("scanner")
	valueM := c.Func("scanner", "Lexeme.Value")
	if pk == nil || valueM == nil {
		sc.Undecided("anchors", "-", "unresolved anchor: scanner.Lexeme.Value")
		return
	}
	info := pk.TypesInfo
	c.P.Funcs(func(p *pkgT, fd *ast.FuncDecl) {
		if p != pk {
			return
		}
		cf := c.CFG(pk, fd.Body)
		parents := map[ast.Node]ast.Node{}
		var stack []ast.Node
		ast.Inspect(fd.Body, func(y ast.Node) bool {
			if y == nil {
				stack = stack[:len(stack)-1]
				return true
			}
			if len(stack) > 0 {
				parents[y] = stack[len(stack)-1]
			}
			stack = append(stack, y)
			return true
		})
		n := 0
		ast.Inspect(fd.Body, func(y ast.Node) bool {
			call, ok := y.(*ast.CallExpr)
			if !ok {
				return true
			}
			if f := Callee(info, call); f == nil || f.Origin() != valueM.Origin() {
				return true
			}
			n++
			key := fmt.Sprintf("%s:Value#%d", c.P.DeclName(fd), n)
			uses := valueUses(info, cf, fd.Body, call, parents)
			bad := ""
			for _, u := range uses {
				if u != "Unquote" {
					bad = u
				}
			}
			switch {
			case len(uses) == 0:
				sc.Holds(key, c.P.Pos(call.Pos()), "the value is not looked at")
			case bad == "":
				sc.Holds(key, c.P.Pos(call.Pos()), "unquoted first")
			default:
				sc.Violation(key, c.P.Pos(call.Pos()), "the parameter's value is used as written ("+bad+") without Unquote(): the quoted spelling of the same parameter is judged differently from the bare one, so the body that follows is read as another notation")
			}
			return true
		})
	})
}

// valueUses: the names of the methods applied to the result of call (or "<other>" for any
// other use), following one local the result is bound to.
func valueUses(info *types.Info, cf *cfgx.Func, body *ast.BlockStmt, call *ast.CallExpr, parents map[ast.Node]ast.Node) []string {
	var out []string
	var useOf func(e ast.Node, depth int)
	useOf = func(e ast.Node, depth int) {
		par := parents[e]
		for {
			if pe, ok := par.(*ast.ParenExpr); ok {
				e, par = pe, parents[pe]
				continue
			}
			break
		}
		switch p := par.(type) {
		case *ast.SelectorExpr:
			if p.X == e {
				out = append(out, p.Sel.Name)
				return
			}
		case *ast.AssignStmt:
			if depth < 2 && len(p.Lhs) == len(p.Rhs) {
				for i, r := range p.Rhs {
					if r != e {
						continue
					}
					id, ok := p.Lhs[i].(*ast.Ident)
					if !ok {
						break
					}
					obj := info.ObjectOf(id)
					found := false
					ast.Inspect(body, func(y ast.Node) bool {
						if u, ok := y.(*ast.Ident); ok && u != id && info.ObjectOf(u) == obj {
							found = true
							useOf(u, depth+1)
						}
						return true
					})
					if !found {
						return
					}
					return
				}
			}
		}
		out = append(out, "<other use>")
	}
	useOf(call, 0)
	return out
}

// ---------------------------------------------------------------- UB1

// RuleUB1: a byte of the document is never classified as a character. The scanner and the
// directive package work on bytes; the document is UTF-8, so a byte >= 0x80 is a fragment of
// a character. `unicode.IsSpace(rune(b))` and its relatives, applied to a byte, answer for
// the Latin-1 character with that number (0x85 NEL and 0xA0 NBSP are "spaces"): a
// continuation byte of an ordinary letter is then taken for white space and a bare
// parameter is cut in the middle of a character, while its quoted spelling is not.
func RuleUB1(c *Ctx) {
	sc := c.Run.Begin("UB1", "no function of package unicode is applied to a byte converted to a rune", 1)
	defer sc.End()
	n := 0
	c.eachCall(func(cs callSite) {
		info := cs.Pk.TypesInfo
		f := Callee(info, cs.Call)
		if f == nil || f.Pkg() == nil || f.Pkg().Path() != "unicode" {
			return
		}
		for _, a := range cs.Call.Args {
			conv, ok := ast.Unparen(a).(*ast.CallExpr)
			if !ok || len(conv.Args) != 1 {
				continue
			}
			if tv, ok := info.Types[conv.Fun]; !ok || !tv.IsType() {
				continue
			}
			if t := info.TypeOf(conv.Args[0]); t != nil && isByte(t) {
				n++
				sc.Violation(fmt.Sprintf("%s:unicode.%s#%d", c.P.DeclName(cs.Decl), f.Name(), n), c.P.Pos(cs.Call.Pos()), "unicode."+f.Name()+" is applied to a single byte of the UTF-8 document: bytes 0x85 and 0xA0 - continuation bytes of common letters - count as white space, so a bare parameter is cut mid-character while the quoted one is kept whole")
			}
		}
	})
	if n == 0 {
		sc.Holds("no-byte-as-rune", "-", "no unicode predicate is applied to a byte")
	}
}

// ---------------------------------------------------------------- KI1

// RuleKI1: a run-wide set is not keyed by a directive's kind. The core keeps sets that make
// something unique within a scope (one Protocol per URL block, one URL per path ...). The
// key stands for the scope: a directive's identity (its pointer), a path, a name. A key that
// is only the KIND of a directive - Directive.String(), Type(), the keyword - is the same
// for every directive of that kind, so two unrelated entries collide: a second JSON-RPC
// resource on another path is refused because some other URL block already has a Protocol.
func RuleKI1(c *Ctx) {
	sc := c.Run.Begin("KI1", "no map field of JApiCore that the run itself fills is indexed by a value that is only the kind of a directive (Directive.String, Directive.Type, Enumeration.String, Directive.Keyword)", 10)
	defer sc.End()
	pk := c.P.Pkg("core")
	coreT := c.Named("core", "JApiCore")
	dirT := c.Named("directive", "Directive")
	if pk == nil || coreT == nil || dirT == nil {
		sc.Undecided("anchors", "-", "unresolved anchor: core.JApiCore / directive.Directive")
		return
	}
	st, _ := coreT.Underlying().(*types.Struct)
	maps := map[types.Object]bool{}
	for i := 0; st != nil && i < st.NumFields(); i++ {
		if _, ok := st.Field(i).Type().Underlying().(*types.Map); ok {
			maps[st.Field(i)] = true
		}
	}
	// only the sets the run itself fills (an element store outside the constructor and the
	// option functions): a table or an option keyed by kind says something about the kind
	runFilled := map[types.Object]bool{}
	c.P.Funcs(func(p *pkgT, fd *ast.FuncDecl) {
		if p != pk || c.isOptionSetup(p, fd) || strings.HasPrefix(fd.Name.Name, "New") {
			return
		}
		ast.Inspect(fd.Body, func(x ast.Node) bool {
			if as, ok := x.(*ast.AssignStmt); ok {
				for _, l := range as.Lhs {
					if ix, ok := ast.Unparen(l).(*ast.IndexExpr); ok {
						if s2, ok := ast.Unparen(ix.X).(*ast.SelectorExpr); ok && maps[pk.TypesInfo.ObjectOf(s2.Sel)] {
							runFilled[pk.TypesInfo.ObjectOf(s2.Sel)] = true
						}
					}
				}
			}
			return true
		})
	})
	for o := range maps {
		if !runFilled[o] {
			delete(maps, o)
		}
	}
	kindOnly := map[*types.Func]bool{}
	for _, nm := range []string{"Directive.String", "Directive.Type", "Enumeration.String"} {
		if f := c.Func("directive", nm); f != nil {
			kindOnly[f] = true
		}
	}
	keyword := c.Field("directive", "Directive", "Keyword")
	info := pk.TypesInfo
	c.P.Funcs(func(p *pkgT, fd *ast.FuncDecl) {
		if p != pk {
			return
		}
		n := 0
		ast.Inspect(fd.Body, func(x ast.Node) bool {
			ix, ok := x.(*ast.IndexExpr)
			if !ok {
				return true
			}
			sel, ok := ast.Unparen(ix.X).(*ast.SelectorExpr)
			if !ok || !maps[info.ObjectOf(sel.Sel)] {
				return true
			}
			n++
			key := fmt.Sprintf("%s:%s#%d", c.P.DeclName(fd), sel.Sel.Name, n)
			body := fd.Body
			ast.Inspect(fd.Body, func(y ast.Node) bool {
				if lit, ok := y.(*ast.FuncLit); ok && lit.Pos() <= ix.Pos() && ix.End() <= lit.End() {
					body = lit.Body
				}
				return true
			})
			k := ast.Unparen(c.CFG(pk, body).Resolve(ix.Index))
			how := ""
			switch y := k.(type) {
			case *ast.CallExpr:
				if f := Callee(info, y); f != nil && kindOnly[f.Origin()] {
					how = types.ExprString(y)
				}
			case *ast.SelectorExpr:
				if keyword != nil && info.ObjectOf(y.Sel) == types.Object(keyword) {
					how = types.ExprString(y)
				}
			}
			if how == "" {
				sc.Holds(key, c.P.Pos(ix.Pos()), "")
			} else {
				sc.Violation(key, c.P.Pos(ix.Pos()), "the set "+sel.Sel.Name+" is keyed by "+how+", which is the same for every directive of one kind: entries that have nothing to do with each other collide, so adding an unrelated declaration of that kind elsewhere changes whether this one is accepted")
			}
			return true
		})
	})
}

// ---------------------------------------------------------------- HK1

// RuleHK1: a scanner level is identified by its file's name as given. The include stack
// identifies each level twice: the recursion guard keys its set by the file name, and the
// tracer cache keys its entries by a hash. What is written into the hasher is that same
// name, through accessors only: a name cut down first (its base name, an extension, a
// lower-cased copy) gives two levels of one chain - api.jst and users/api.jst - one cache
// slot, and a late diagnostic then carries the include chain of the other level.
func RuleHK1(c *Ctx) {
	sc := c.Run.Begin("HK1", "in package scanner, the bytes written into a hash.Hash are the untransformed value of an accessor chain (the file's name as given)", 1)
	defer sc.End()
	pk := c.P.Pkg("scanner")
	if pk == nil {
		sc.Undecided("anchors", "-", "unresolved anchor: package scanner")
		return
	}
	info := pk.TypesInfo
	n := 0
	c.eachCall(func(cs callSite) {
		if cs.Pk != pk {
			return
		}
		sel, ok := ast.Unparen(cs.Call.Fun).(*ast.SelectorExpr)
		if !ok || sel.Sel.Name != "Write" || len(cs.Call.Args) != 1 {
			return
		}
		rt := info.TypeOf(sel.X)
		if rt == nil {
			return
		}
		named, ok := rt.(*types.Named)
		if !ok || named.Obj().Pkg() == nil || named.Obj().Pkg().Path() != "hash" {
			return
		}
		n++
		key := fmt.Sprintf("%s:hash.Write#%d", c.P.DeclName(cs.Decl), n)
		cf := c.CFG(cs.Pk, cs.Body)
		arg := ast.Unparen(cf.Resolve(cs.Call.Args[0]))
		if conv, ok := arg.(*ast.CallExpr); ok && len(conv.Args) == 1 {
			if tv, ok := info.Types[conv.Fun]; ok && tv.IsType() {
				arg = ast.Unparen(cf.Resolve(conv.Args[0]))
			}
		}
		how := transformedKey(info, arg)
		// the hashed text is a parameter of a helper: judged at the helper's call sites
		if id, ok := arg.(*ast.Ident); ok && how == "" && cs.Lit == nil {
			if pi := paramIndex(cs, info, info.ObjectOf(id)); pi >= 0 {
				if self := declObj(cs); self != nil {
					for _, up := range c.callSitesOf(self) {
						if pi < len(up.Call.Args) {
							ucf := c.CFG(up.Pk, up.Body)
							if h := transformedKey(up.Pk.TypesInfo, ast.Unparen(ucf.Resolve(up.Call.Args[pi]))); h != "" {
								how = h
							}
						}
					}
				}
			}
		}
		if how == "" {
			sc.Holds(key, c.P.Pos(cs.Call.Pos()), "hashes "+types.ExprString(arg)+" as it is")
		} else {
			sc.Violation(key, c.P.Pos(cs.Call.Pos()), "what identifies a scanner level in the tracer cache is a transformed name ("+how+"), not the file's name as the recursion guard knows it: two different files of one include chain can share a cache slot, and a late diagnostic then reports the include chain of the other one")
		}
	})
	if n == 0 {
		sc.Undecided("sites", "-", "no hash.Hash.Write call in package scanner")
	}
}

// ---------------------------------------------------------------- NL1

// RuleNL1: positions are turned into lines with the file's own line break. The helpers of
// package jerr that take a content and a line-break byte (LineNumber, LineBeginning,
// LineEnd, the quote cutter) must be given the byte DetectNewLineSymbol found in that very
// content, or the caller's own parameter that is subject to the same obligation. A constant
// ('\n') counts the lines of a CR-only file as one: the line of an include-chain entry is 1
// whatever line the INCLUDE stands on.
func RuleNL1(c *Ctx) {
	sc := c.Run.Begin("NL1", "every call of a jerr helper taking (content, ..., line-break byte) passes DetectNewLineSymbol(<that content>) or the caller's own line-break parameter", 5)
	defer sc.End()
	pk := c.P.Pkg("jerr")
	detect := c.Func("jerr", "DetectNewLineSymbol")
	if pk == nil || detect == nil {
		sc.Undecided("anchors", "-", "unresolved anchor: jerr.DetectNewLineSymbol")
		return
	}
	isContent := func(t types.Type) bool {
		n, ok := t.(*types.Named)
		return ok && n.Obj().Name() == "Bytes" && n.Obj().Pkg() != nil && strings.HasSuffix(n.Obj().Pkg().Path(), "/bytes")
	}
	n := 0
	c.eachCall(func(cs callSite) {
		info := cs.Pk.TypesInfo
		f := Callee(info, cs.Call)
		if f == nil || f.Pkg() != pk.Types || f == detect {
			return
		}
		sig := f.Type().(*types.Signature)
		ci, bi := -1, -1
		for i := 0; i < sig.Params().Len(); i++ {
			t := sig.Params().At(i).Type()
			switch {
			case isContent(t) && ci < 0:
				ci = i
			case isByte(t):
				if b, ok := t.(*types.Basic); ok && b.Kind() == types.Uint8 || t.String() == "byte" {
					bi = i
				}
			}
		}
		if ci < 0 || bi < 0 || bi >= len(cs.Call.Args) || ci >= len(cs.Call.Args) {
			return
		}
		n++
		key := fmt.Sprintf("%s:%s#%d", c.P.DeclName(cs.Decl), f.Name(), n)
		cf := c.CFG(cs.Pk, cs.Body)
		nl := ast.Unparen(cf.Resolve(cs.Call.Args[bi]))
		content := cs.Call.Args[ci]
		switch y := nl.(type) {
		case *ast.Ident:
			if paramIndex(cs, info, info.ObjectOf(y)) >= 0 {
				sc.Holds(key, c.P.Pos(cs.Call.Pos()), "passes on its own line-break parameter")
				return
			}
		case *ast.CallExpr:
			if Callee(info, y) == detect && len(y.Args) == 1 && (cfgx.SameExpr(info, y.Args[0], content) || cf.SameResolved(y.Args[0], content)) {
				sc.Holds(key, c.P.Pos(cs.Call.Pos()), "the line break detected in the same content")
				return
			}
		}
		sc.Violation(key, c.P.Pos(cs.Call.Pos()), "the line-break byte given to "+f.Name()+" ("+types.ExprString(cs.Call.Args[bi])+") is not the one DetectNewLineSymbol finds in the content that is measured: in a file with CR (or another) line ends every position is on line 1, so the line of an include-chain entry or of a diagnostic names the wrong line")
	})
	_ = token.NoPos
}

// ---------------------------------------------------------------- PP1

// RulePP1: what a PASTE brings does not depend on where the PASTE stands. The functions
// that expand a PASTE (everything the paste pass reaches in package core, the context
// resolver apart - placing directives is its business) decide nothing by the Parent of a
// directive they were handed: the macro's body, its rules and its declarations are the same
// below a method as at the top level, exactly as if the body had been written there. A
// condition on `paste.Parent` makes a part of the expansion (the ENUM rules, say) happen
// only for some positions.
func RulePP1(c *Ctx) {
	sc := c.Run.Begin("PP1", "in the functions the paste pass reaches (the context resolver apart) no branch condition reads the Parent of a directive received as a parameter", 5)
	defer sc.End()
	pk := c.P.Pkg("core")
	root := c.Func("core", "JApiCore.processPaste")
	parent := c.Field("directive", "Directive", "Parent")
	dirT := c.Named("directive", "Directive")
	if pk == nil || root == nil || parent == nil || dirT == nil {
		sc.Undecided("anchors", "-", "unresolved anchor: core.JApiCore.processPaste / directive.Directive.Parent")
		return
	}
	skip := map[*types.Func]bool{}
	if resolver, _ := c.resolverFunc(); resolver != nil {
		for f := range c.familyOf(resolver) {
			skip[f] = true
		}
		for _, f := range reachStatic(c.P, pk, []*types.Func{resolver}) {
			skip[f] = true
		}
	}
	info := pk.TypesInfo
	for _, f := range reachStatic(c.P, pk, []*types.Func{root}) {
		fd := c.P.Decl(f)
		if fd == nil || skip[f] || c.P.PkgOfDecl(fd) != pk {
			continue
		}
		params := map[types.Object]bool{}
		for _, fl := range fd.Type.Params.List {
			for _, nm := range fl.Names {
				if o := info.ObjectOf(nm); o != nil {
					if pt, ok := o.Type().(*types.Pointer); ok && types.Identical(pt.Elem(), dirT) {
						params[o] = true
					}
				}
			}
		}
		n := 0
		judge := func(cond ast.Expr, at ast.Node) {
			if cond == nil {
				return
			}
			n++
			key := fmt.Sprintf("%s:cond#%d", c.P.DeclName(fd), n)
			bad := ""
			ast.Inspect(cond, func(y ast.Node) bool {
				if sel, ok := y.(*ast.SelectorExpr); ok && info.ObjectOf(sel.Sel) == types.Object(parent) {
					if params[cfgx.RootObj(info, sel.X)] {
						bad = types.ExprString(sel)
					}
				}
				return true
			})
			if bad == "" {
				sc.Holds(key, c.P.Pos(at.Pos()), "")
			} else {
				sc.Violation(key, c.P.Pos(at.Pos()), "the expansion branches on "+bad+", the place where the PASTE stands: a part of what the macro brings (its rules, its declarations) is produced for some positions only, so a PASTE below a method differs from the macro's body written there")
			}
		}
		ast.Inspect(fd.Body, func(x ast.Node) bool {
			switch s := x.(type) {
			case *ast.IfStmt:
				judge(s.Cond, s)
			case *ast.SwitchStmt:
				judge(s.Tag, s)
				for _, cl := range s.Body.List {
					for _, e := range cl.(*ast.CaseClause).List {
						if s.Tag == nil {
							judge(e, cl)
						}
					}
				}
			case *ast.ForStmt:
				judge(s.Cond, s)
			}
			return true
		})
	}
}

// ---------------------------------------------------------------- KW1

// RuleKW1: the look-ahead that ends a free text knows every keyword. The scanner ends a
// Description text at the first line that starts with a directive keyword, asking one
// function of package directive. That function either walks the keyword table itself (a loop
// over the table or over its length) or names every constant of the enumeration - a kind
// that has a recogniser of its own (Is<Kind>) apart. A hand-written list that leaves one
// keyword out makes a line starting with it part of the text: the directive is never
// created, silently.
func RuleKW1(c *Ctx) {
	sc := c.Run.Begin("KW1", "the keyword look-ahead (directive.IsStartWithDirective) walks the keyword table or mentions every constant of the enumeration", 1)
	defer sc.End()
	pk := c.P.Pkg("directive")
	look := c.Func("directive", "IsStartWithDirective")
	enumT := c.Named("directive", "Enumeration")
	strM := c.Func("directive", "Enumeration.String")
	if pk == nil || look == nil || enumT == nil || strM == nil {
		sc.Undecided("anchors", "-", "unresolved anchor: directive.IsStartWithDirective / Enumeration")
		return
	}
	info := pk.TypesInfo
	// the table: the package-level variable Enumeration.String indexes
	var table types.Object
	if sd := c.P.Decl(strM); sd != nil {
		ast.Inspect(sd.Body, func(x ast.Node) bool {
			if ix, ok := x.(*ast.IndexExpr); ok {
				if id, ok := ast.Unparen(ix.X).(*ast.Ident); ok {
					if v, ok := info.ObjectOf(id).(*types.Var); ok && v.Parent() == pk.Types.Scope() {
						table = v
					}
				}
			}
			return true
		})
	}
	walks := false
	mentioned := map[string]bool{}
	recognisers := map[string]bool{}
	for _, f := range reachStatic(c.P, pk, []*types.Func{look}) {
		fd := c.P.Decl(f)
		if fd == nil || f == strM {
			continue
		}
		if strings.HasPrefix(f.Name(), "Is") && f != look {
			recognisers[strings.TrimPrefix(f.Name(), "Is")] = true
		}
		ast.Inspect(fd.Body, func(x ast.Node) bool {
			switch s := x.(type) {
			case *ast.RangeStmt:
				if id, ok := ast.Unparen(s.X).(*ast.Ident); ok && table != nil && info.ObjectOf(id) == table {
					walks = true
				}
			case *ast.ForStmt:
				if s.Cond != nil {
					ast.Inspect(s.Cond, func(y ast.Node) bool {
						if lo, isLen := lengthExprNode(info, y); isLen {
							if id, ok := ast.Unparen(lo).(*ast.Ident); ok && table != nil && info.ObjectOf(id) == table {
								walks = true
							}
						}
						return true
					})
				}
			case *ast.Ident:
				if cst, ok := info.ObjectOf(s).(*types.Const); ok && types.Identical(cst.Type(), enumT) {
					mentioned[cst.Name()] = true
				}
			}
			return true
		})
	}
	if walks {
		sc.Holds("table", c.P.Pos(c.P.Decl(look).Pos()), "the look-ahead walks the keyword table")
		return
	}
	var missing []string
	for _, k := range EnumConsts(pk, enumT) {
		if !mentioned[k.Name()] && !recognisers[k.Name()] {
			missing = append(missing, k.Name())
		}
	}
	if len(missing) == 0 {
		sc.Holds("table", c.P.Pos(c.P.Decl(look).Pos()), "every constant of the enumeration is named")
	} else {
		sc.Violation("table", c.P.Pos(c.P.Decl(look).Pos()), "the look-ahead neither walks the keyword table nor names "+strings.Join(missing, ", ")+": a line that starts with that keyword does not end a Description text, so the directive is swallowed into the text and never created")
	}
}

func lengthExprNode(info *types.Info, n ast.Node) (ast.Expr, bool) {
	e, ok := n.(ast.Expr)
	if !ok {
		return nil, false
	}
	return lengthExpr(info, e)
}
