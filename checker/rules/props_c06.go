package rules

func init() {
	reg("C06", &PropSpec{
		Rules:       []Rule{r("R1", RuleR1), r("R2", RuleR2), r("R2c", RuleR2c), r("R3", RuleR3), r("R4", RuleR4), r("R5", RuleR5), r("N1", RuleN1), r("X1", RuleX1), r("AT1", RuleAT1), r("R2w", RuleR2w), r("R6", RuleR6), r("RT1", RuleRT1)},
		Explanation: "The walk over the runtime tree is not decided statically. Decided: one function links directives to parents, every Parent store / AppendChild / root-list insert is in it and both tree-building phases call it, so pasted directives are nested by the same resolution as written ones (R1); the parenthesis protocol is wired end to end - '(' handler sets the flag, ')' handler reaches the walk that stops at it, the scan stage cannot succeed while an explicit context is open (R2); every test inside the outward walk reads the current candidate context, none is computed once before the walk (R3); '(' and ')' with no directive are diagnostics, not crashes (N1); the lexeme dispatch lists every lexeme type (X1). Not decided: that the loop picks the nearest admitting ancestor and stops at an explicit boundary; correctness of the admissibility table. The `)` handler succeeds only after a flagged context was found (R2c); Parent and Children agree at every exit of the resolver family (R4); outside it the current context only moves outwards (R5). Kinds of one class (the HTTP methods) admit the same children in the allowed-children table (AT1). Every step outwards of the current context is taken with the HasExplicitContext flag in view (R5 boundary).",
		Trusted:     trustedCommon,
	})
}
