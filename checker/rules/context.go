package rules

import (
	"fmt"
	"go/ast"
	"go/constant"
	"go/token"
	"go/types"
	"sort"
	"strings"
)

// ---------------------------------------------------------------- CX1

// RuleCX1: parentheses may follow every directive that can have children. The handler of
// the opening-parenthesis lexeme is evaluated, for each directive kind K in turn, with the
// kind of the current directive bound to K: every condition that guards an error return is
// computed in three-valued logic (tests of the kind against constants, switches over it,
// boolean predicates over the enumeration - switch-, comparison- and table-membership
// shaped - are evaluated; anything else is unknown). A kind for which some rejecting
// condition does not come out false, while it comes out false for another kind, is a kind
// the handler refuses BECAUSE of what it is; none of those may own a non-empty entry in the
// table of allowed children (directiveAllowedToDirectiveContext): for such a kind "the
// children in explicit parentheses" is a rewriting the property quantifies over.
func RuleCX1(c *Ctx) {
	sc := c.Run.Begin("CX1", "the handler of the opening parenthesis refuses no directive kind that has an entry with children in the allowed-children table (evaluated per kind in three-valued logic over kind tests, switches and enumeration predicates)", 1)
	defer sc.End()
	pk := c.P.Pkg("core")
	dpk := c.P.Pkg("directive")
	enumT := c.Named("directive", "Enumeration")
	if pk == nil || dpk == nil || enumT == nil {
		sc.Undecided("anchors", "-", "unresolved anchor: core / directive.Enumeration")
		return
	}
	_, handlers, _ := c.lexemeDispatch()
	hs := handlers["ContextExplicitOpening"]
	if len(hs) == 0 {
		sc.Undecided("handler", "-", "unresolved anchor: the handler of scanner.ContextExplicitOpening")
		return
	}
	ev := &kindEval{c: c, enumT: enumT, tables: map[*types.Var]map[string]bool{}}
	consts := EnumConsts(dpk, enumT)
	// kinds that can have children: keys of a package-level map[Enumeration]map[Enumeration]...
	// whose value is built from at least one kind
	capable := map[string][]string{}
	for _, file := range dpk.Syntax {
		for _, decl := range file.Decls {
			gd, ok := decl.(*ast.GenDecl)
			if !ok || gd.Tok != token.VAR {
				continue
			}
			for _, sp := range gd.Specs {
				vs, ok := sp.(*ast.ValueSpec)
				if !ok || len(vs.Values) != 1 {
					continue
				}
				cl, ok := ast.Unparen(vs.Values[0]).(*ast.CompositeLit)
				if !ok {
					continue
				}
				mt, ok := dpk.TypesInfo.TypeOf(cl).Underlying().(*types.Map)
				if !ok || !types.Identical(mt.Key(), enumT) {
					continue
				}
				if inner, ok := mt.Elem().Underlying().(*types.Map); !ok || !types.Identical(inner.Key(), enumT) {
					continue
				}
				for _, el := range cl.Elts {
					kv, ok := el.(*ast.KeyValueExpr)
					if !ok {
						continue
					}
					ktv, ok := dpk.TypesInfo.Types[kv.Key]
					if !ok || ktv.Value == nil {
						continue
					}
					var kids []string
					for _, nm := range enumConstsIn(dpk, enumT, kv.Value, 0) {
						kids = append(kids, nm)
					}
					sort.Strings(kids)
					if len(kids) > 0 {
						capable[ktv.Value.ExactString()] = kids
					}
				}
			}
		}
	}
	if len(capable) == 0 {
		sc.Undecided("table", "-", "unresolved anchor: the allowed-children table map[Enumeration]map[Enumeration]...")
		return
	}
	cur := c.Field("core", "JApiCore", "currentDirective")
	for _, h := range hs {
		fd := c.P.Decl(h)
		if fd == nil {
			continue
		}
		info := pk.TypesInfo
		// is e "the kind of the current directive": <x>.currentDirective.Type()
		isKind := func(e ast.Expr) bool {
			call, ok := ast.Unparen(e).(*ast.CallExpr)
			if !ok || len(call.Args) != 0 {
				return false
			}
			if t := info.TypeOf(call); t == nil || !types.Identical(t, enumT) {
				return false
			}
			r := Recv(call)
			if r == nil {
				return false
			}
			if sel, ok := ast.Unparen(r).(*ast.SelectorExpr); ok && cur != nil && info.ObjectOf(sel.Sel) == types.Object(cur) {
				return true
			}
			return false
		}
		cf := c.CFG(pk, fd.Body)
		refusedBy := map[string][]string{} // kind name -> positions of the refusing conditions
		conds := 0
		var visit func(list []ast.Stmt)
		judge := func(pos token.Pos, outcome func(k *types.Const) tri) {
			conds++
			var vals []tri
			for _, k := range consts {
				vals = append(vals, outcome(k))
			}
			same := true
			for _, v := range vals {
				if v != vals[0] {
					same = false
				}
			}
			if same {
				return // not decided by the kind
			}
			for i, k := range consts {
				if vals[i] != triFalse {
					refusedBy[k.Name()] = append(refusedBy[k.Name()], c.P.Pos(pos))
				}
			}
		}
		envFor := func(k *types.Const) *kindEnv {
			return &kindEnv{info: info, kind: k.Val(), isKind: func(e ast.Expr) bool {
				if isKind(e) {
					return true
				}
				if id, ok := ast.Unparen(e).(*ast.Ident); ok {
					if def := cf.DefOf(info.ObjectOf(id)); def != nil {
						return isKind(def)
					}
				}
				return false
			}}
		}
		visit = func(list []ast.Stmt) {
			for _, st := range list {
				switch s := st.(type) {
				case *ast.IfStmt:
					if endsWithErrorReturn(info, s.Body) {
						cond := s.Cond
						judge(s.Pos(), func(k *types.Const) tri { return ev.boolExpr(pk, envFor(k), cond, 0) })
					} else {
						visit(s.Body.List)
					}
					if eb, ok := s.Else.(*ast.BlockStmt); ok {
						visit(eb.List)
					}
				case *ast.SwitchStmt:
					if s.Tag == nil {
						continue
					}
					for _, cl := range s.Body.List {
						cc := cl.(*ast.CaseClause)
						if !endsWithErrorReturn(info, &ast.BlockStmt{List: cc.Body}) {
							continue
						}
						sw, clause := s, cc
						judge(cc.Pos(), func(k *types.Const) tri {
							e := envFor(k)
							tag, ok := ev.kindExpr(pk, e, sw.Tag)
							if !ok {
								return triUnknown
							}
							listed := func(cc *ast.CaseClause) bool {
								for _, x := range cc.List {
									if tv, ok := info.Types[x]; ok && tv.Value != nil && constant.Compare(tv.Value, token.EQL, tag) {
										return true
									}
								}
								return false
							}
							if clause.List != nil {
								return triOf(listed(clause))
							}
							for _, other := range sw.Body.List {
								if oc := other.(*ast.CaseClause); oc.List != nil && listed(oc) {
									return triFalse
								}
							}
							return triTrue
						})
					}
				case *ast.BlockStmt:
					visit(s.List)
				}
			}
		}
		visit(fd.Body.List)
		var bad []string
		for _, k := range consts {
			if _, refused := refusedBy[k.Name()]; !refused {
				continue
			}
			if kids, ok := capable[k.Val().ExactString()]; ok {
				bad = append(bad, fmt.Sprintf("%s (children: %s; refused at %s)", k.Name(), strings.Join(kids, ", "), refusedBy[k.Name()][0]))
			}
		}
		sort.Strings(bad)
		key := c.P.DeclName(fd)
		if len(bad) == 0 {
			sc.Holds(key, c.P.Pos(fd.Pos()), fmt.Sprintf("%d rejecting condition(s) evaluated for %d kinds; kinds refused because of what they are: %d, none with children in the table (%d kinds have)", conds, len(consts), len(refusedBy), len(capable)))
		} else {
			sc.Violation(key, c.P.Pos(fd.Pos()), "an opening parenthesis is refused after a directive that can have children: "+strings.Join(bad, "; ")+" - putting those children in explicit parentheses, where they would nest anyway, turns an accepted document into a rejected one")
		}
	}
}

// enumConstsIn collects the constants of the enumeration mentioned in e; an identifier
// (also as `x...`) that names a package-level variable initialised with a composite literal
// stands for the constants in that literal.
func enumConstsIn(pk *pkgT, enumT types.Type, e ast.Node, depth int) map[string]string {
	out := map[string]string{}
	info := pk.TypesInfo
	ast.Inspect(e, func(n ast.Node) bool {
		x, ok := n.(ast.Expr)
		if !ok {
			return true
		}
		if tv, ok := info.Types[x]; ok && tv.Value != nil && types.Identical(tv.Type, enumT) {
			out[tv.Value.ExactString()] = types.ExprString(x)
			return false
		}
		if id, ok := x.(*ast.Ident); ok && depth < 2 {
			if v, ok := info.ObjectOf(id).(*types.Var); ok && v.Parent() == pk.Types.Scope() {
				for _, file := range pk.Syntax {
					for _, decl := range file.Decls {
						gd, ok := decl.(*ast.GenDecl)
						if !ok || gd.Tok != token.VAR {
							continue
						}
						for _, sp := range gd.Specs {
							vs, ok := sp.(*ast.ValueSpec)
							if !ok || len(vs.Names) != 1 || len(vs.Values) != 1 || info.ObjectOf(vs.Names[0]) != types.Object(v) {
								continue
							}
							if cl, ok := ast.Unparen(vs.Values[0]).(*ast.CompositeLit); ok {
								for k, nm := range enumConstsIn(pk, enumT, cl, depth+1) {
									out[k] = nm
								}
							}
						}
					}
				}
			}
		}
		return true
	})
	return out
}

type tri int

const (
	triUnknown tri = iota
	triFalse
	triTrue
)

func triOf(b bool) tri {
	if b {
		return triTrue
	}
	return triFalse
}

type kindEnv struct {
	info   *types.Info
	kind   constant.Value
	isKind func(ast.Expr) bool // expression known to evaluate to the kind under test
	bools  map[types.Object]tri
}

type kindEval struct {
	c      *Ctx
	enumT  *types.Named
	tables map[*types.Var]map[string]bool
}

// kindExpr: the constant an enumeration-typed expression evaluates to.
func (ev *kindEval) kindExpr(pk *pkgT, env *kindEnv, e ast.Expr) (constant.Value, bool) {
	e = ast.Unparen(e)
	if tv, ok := env.info.Types[e]; ok && tv.Value != nil {
		return tv.Value, true
	}
	if env.isKind != nil && env.isKind(e) {
		return env.kind, true
	}
	return nil, false
}

func (ev *kindEval) boolExpr(pk *pkgT, env *kindEnv, e ast.Expr, depth int) tri {
	e = ast.Unparen(e)
	if tv, ok := env.info.Types[e]; ok && tv.Value != nil && tv.Value.Kind() == constant.Bool {
		return triOf(constant.BoolVal(tv.Value))
	}
	switch x := e.(type) {
	case *ast.Ident:
		if v, ok := env.bools[env.info.ObjectOf(x)]; ok {
			return v
		}
	case *ast.UnaryExpr:
		if x.Op == token.NOT {
			switch ev.boolExpr(pk, env, x.X, depth) {
			case triTrue:
				return triFalse
			case triFalse:
				return triTrue
			}
		}
	case *ast.BinaryExpr:
		switch x.Op {
		case token.LAND:
			a, b := ev.boolExpr(pk, env, x.X, depth), ev.boolExpr(pk, env, x.Y, depth)
			if a == triFalse || b == triFalse {
				return triFalse
			}
			if a == triTrue && b == triTrue {
				return triTrue
			}
		case token.LOR:
			a, b := ev.boolExpr(pk, env, x.X, depth), ev.boolExpr(pk, env, x.Y, depth)
			if a == triTrue || b == triTrue {
				return triTrue
			}
			if a == triFalse && b == triFalse {
				return triFalse
			}
		case token.EQL, token.NEQ:
			a, okA := ev.kindExpr(pk, env, x.X)
			b, okB := ev.kindExpr(pk, env, x.Y)
			if okA && okB {
				return triOf(constant.Compare(a, x.Op, b))
			}
		}
	case *ast.CallExpr:
		return ev.predCall(pk, env, x, depth)
	}
	return triUnknown
}

// predCall: a boolean function of the repository whose single enumeration operand (an
// argument or the receiver) is known.
func (ev *kindEval) predCall(pk *pkgT, env *kindEnv, call *ast.CallExpr, depth int) tri {
	if depth > 3 {
		return triUnknown
	}
	g := Callee(env.info, call)
	if g == nil {
		return triUnknown
	}
	gd := ev.c.P.Decl(g)
	if gd == nil || gd.Body == nil {
		return triUnknown
	}
	gpk := ev.c.P.PkgOfDecl(gd)
	sig := g.Type().(*types.Signature)
	if sig.Results().Len() != 1 {
		return triUnknown
	}
	if b, ok := sig.Results().At(0).Type().Underlying().(*types.Basic); !ok || b.Kind() != types.Bool {
		return triUnknown
	}
	// bind the enumeration-typed operands
	bound := map[types.Object]constant.Value{}
	if sig.Recv() != nil && types.Identical(sig.Recv().Type(), ev.enumT) {
		v, ok := ev.kindExpr(pk, env, Recv(call))
		if !ok {
			return triUnknown
		}
		if gd.Recv != nil && len(gd.Recv.List) == 1 && len(gd.Recv.List[0].Names) == 1 {
			bound[gpk.TypesInfo.ObjectOf(gd.Recv.List[0].Names[0])] = v
		}
	}
	i := 0
	for _, fl := range gd.Type.Params.List {
		for _, nm := range fl.Names {
			if i < len(call.Args) && types.Identical(gpk.TypesInfo.TypeOf(nm), ev.enumT) {
				v, ok := ev.kindExpr(pk, env, call.Args[i])
				if !ok {
					return triUnknown
				}
				bound[gpk.TypesInfo.ObjectOf(nm)] = v
			}
			i++
		}
	}
	if len(bound) == 0 {
		return triUnknown
	}
	return ev.runPred(gpk, gd, bound, depth)
}

// evalPredFor: the answer of a one-operand boolean predicate of the enumeration (method or
// function) for the kind k.
func (ev *kindEval) evalPredFor(gd *ast.FuncDecl, k constant.Value) tri {
	gpk := ev.c.P.PkgOfDecl(gd)
	bound := map[types.Object]constant.Value{}
	for _, fl := range []*ast.FieldList{gd.Recv, gd.Type.Params} {
		if fl == nil {
			continue
		}
		for _, f := range fl.List {
			for _, nm := range f.Names {
				if types.Identical(gpk.TypesInfo.TypeOf(nm), ev.enumT) {
					bound[gpk.TypesInfo.ObjectOf(nm)] = k
				}
			}
		}
	}
	if len(bound) != 1 {
		return triUnknown
	}
	return ev.runPred(gpk, gd, bound, 0)
}

func (ev *kindEval) runPred(gpk *pkgT, gd *ast.FuncDecl, bound map[types.Object]constant.Value, depth int) tri {
	inner := &kindEnv{info: gpk.TypesInfo, bools: map[types.Object]tri{}}
	kindOf := func(e ast.Expr) (constant.Value, bool) {
		if id, ok := ast.Unparen(e).(*ast.Ident); ok {
			v, ok := bound[gpk.TypesInfo.ObjectOf(id)]
			return v, ok
		}
		return nil, false
	}
	// the callee's body is evaluated with one operand at a time as "the kind"
	var run func(list []ast.Stmt) (tri, bool)
	evalIn := func(e ast.Expr) tri {
		// comparisons and nested predicate calls over bound operands
		var val func(e ast.Expr) tri
		val = func(e ast.Expr) tri {
			e = ast.Unparen(e)
			if tv, ok := gpk.TypesInfo.Types[e]; ok && tv.Value != nil && tv.Value.Kind() == constant.Bool {
				return triOf(constant.BoolVal(tv.Value))
			}
			switch x := e.(type) {
			case *ast.Ident:
				if v, ok := inner.bools[gpk.TypesInfo.ObjectOf(x)]; ok {
					return v
				}
			case *ast.UnaryExpr:
				if x.Op == token.NOT {
					switch val(x.X) {
					case triTrue:
						return triFalse
					case triFalse:
						return triTrue
					}
				}
			case *ast.BinaryExpr:
				switch x.Op {
				case token.LAND:
					a, b := val(x.X), val(x.Y)
					if a == triFalse || b == triFalse {
						return triFalse
					}
					if a == triTrue && b == triTrue {
						return triTrue
					}
				case token.LOR:
					a, b := val(x.X), val(x.Y)
					if a == triTrue || b == triTrue {
						return triTrue
					}
					if a == triFalse && b == triFalse {
						return triFalse
					}
				case token.EQL, token.NEQ:
					side := func(e ast.Expr) (constant.Value, bool) {
						if v, ok := kindOf(e); ok {
							return v, true
						}
						if tv, ok := gpk.TypesInfo.Types[e]; ok && tv.Value != nil {
							return tv.Value, true
						}
						return nil, false
					}
					a, okA := side(x.X)
					b, okB := side(x.Y)
					if okA && okB {
						return triOf(constant.Compare(a, x.Op, b))
					}
				}
			case *ast.CallExpr:
				sub := &kindEnv{info: gpk.TypesInfo, isKind: nil}
				// one bound operand passed on
				for _, a := range x.Args {
					if v, ok := kindOf(a); ok {
						sub.kind = v
						arg := a
						sub.isKind = func(e ast.Expr) bool { return ast.Unparen(e) == ast.Unparen(arg) }
					}
				}
				if r := Recv(x); r != nil {
					if v, ok := kindOf(r); ok {
						sub.kind = v
						sub.isKind = func(e ast.Expr) bool { return ast.Unparen(e) == ast.Unparen(r) }
					}
				}
				if sub.isKind != nil {
					return ev.predCall(gpk, sub, x, depth+1)
				}
			}
			return triUnknown
		}
		return val(e)
	}
	run = func(list []ast.Stmt) (tri, bool) {
		for _, st := range list {
			switch s := st.(type) {
			case *ast.ReturnStmt:
				if len(s.Results) != 1 {
					return triUnknown, true
				}
				return evalIn(s.Results[0]), true
			case *ast.SwitchStmt:
				if s.Init != nil {
					return triUnknown, true
				}
				var chosen *ast.CaseClause
				if s.Tag != nil {
					tag, ok := kindOf(s.Tag)
					if !ok {
						return triUnknown, true
					}
					var def *ast.CaseClause
					for _, cl := range s.Body.List {
						cc := cl.(*ast.CaseClause)
						if cc.List == nil {
							def = cc
							continue
						}
						for _, x := range cc.List {
							tv, ok := gpk.TypesInfo.Types[x]
							if !ok || tv.Value == nil {
								return triUnknown, true
							}
							if constant.Compare(tv.Value, token.EQL, tag) {
								chosen = cc
							}
						}
						if chosen != nil {
							break
						}
					}
					if chosen == nil {
						chosen = def
					}
				} else {
					for _, cl := range s.Body.List {
						cc := cl.(*ast.CaseClause)
						if cc.List == nil {
							chosen = cc
							break
						}
						hit := triFalse
						for _, x := range cc.List {
							switch evalIn(x) {
							case triTrue:
								hit = triTrue
							case triUnknown:
								if hit != triTrue {
									hit = triUnknown
								}
							}
						}
						if hit == triUnknown {
							return triUnknown, true
						}
						if hit == triTrue {
							chosen = cc
							break
						}
					}
				}
				if chosen != nil {
					for _, b := range chosen.Body {
						if br, ok := b.(*ast.BranchStmt); ok && br.Tok == token.FALLTHROUGH {
							return triUnknown, true
						}
					}
					if v, done := run(chosen.Body); done {
						return v, true
					}
				}
			case *ast.IfStmt:
				if s.Init != nil {
					if v, done := run([]ast.Stmt{s.Init}); done {
						return v, true
					}
				}
				switch evalIn(s.Cond) {
				case triTrue:
					if v, done := run(s.Body.List); done {
						return v, true
					}
				case triFalse:
					switch el := s.Else.(type) {
					case *ast.BlockStmt:
						if v, done := run(el.List); done {
							return v, true
						}
					case *ast.IfStmt:
						if v, done := run([]ast.Stmt{el}); done {
							return v, true
						}
					}
				default:
					return triUnknown, true
				}
			case *ast.AssignStmt:
				// `_, ok := table[k]`  /  `ok := pred(k)`
				if len(s.Lhs) == 2 && len(s.Rhs) == 1 {
					if ix, ok := ast.Unparen(s.Rhs[0]).(*ast.IndexExpr); ok {
						if id, ok := s.Lhs[1].(*ast.Ident); ok {
							inner.bools[gpk.TypesInfo.ObjectOf(id)] = ev.member(gpk, ix, kindOf)
							continue
						}
					}
					return triUnknown, true
				}
				if len(s.Lhs) == 1 && len(s.Rhs) == 1 {
					if id, ok := s.Lhs[0].(*ast.Ident); ok {
						if b, isB := gpk.TypesInfo.TypeOf(id).Underlying().(*types.Basic); isB && b.Kind() == types.Bool {
							inner.bools[gpk.TypesInfo.ObjectOf(id)] = evalIn(s.Rhs[0])
							continue
						}
					}
				}
				return triUnknown, true
			case *ast.BlockStmt:
				if v, done := run(s.List); done {
					return v, true
				}
			case *ast.DeclStmt, *ast.EmptyStmt:
			default:
				return triUnknown, true
			}
		}
		return triUnknown, false
	}
	v, _ := run(gd.Body.List)
	return v
}

// member: is the known kind a key of the package-level map literal indexed here.
func (ev *kindEval) member(pk *pkgT, ix *ast.IndexExpr, kindOf func(ast.Expr) (constant.Value, bool)) tri {
	k, ok := kindOf(ix.Index)
	if !ok {
		return triUnknown
	}
	id, ok := ast.Unparen(ix.X).(*ast.Ident)
	if !ok {
		return triUnknown
	}
	v, ok := pk.TypesInfo.ObjectOf(id).(*types.Var)
	if !ok || v.Parent() != pk.Types.Scope() {
		return triUnknown
	}
	keys, done := ev.tables[v]
	if !done {
		for _, file := range pk.Syntax {
			for _, decl := range file.Decls {
				gd, ok := decl.(*ast.GenDecl)
				if !ok || gd.Tok != token.VAR {
					continue
				}
				for _, sp := range gd.Specs {
					vs, ok := sp.(*ast.ValueSpec)
					if !ok || len(vs.Names) != 1 || len(vs.Values) != 1 || pk.TypesInfo.ObjectOf(vs.Names[0]) != types.Object(v) {
						continue
					}
					if call, ok := ast.Unparen(vs.Values[0]).(*ast.CallExpr); ok {
						keys = ev.setBuilderKeys(pk, call)
						continue
					}
					cl, ok := ast.Unparen(vs.Values[0]).(*ast.CompositeLit)
					if !ok {
						continue
					}
					keys = map[string]bool{}
					for _, el := range cl.Elts {
						kv, ok := el.(*ast.KeyValueExpr)
						if !ok {
							keys = nil
							break
						}
						tv, ok := pk.TypesInfo.Types[kv.Key]
						if !ok || tv.Value == nil {
							keys = nil
							break
						}
						keys[tv.Value.ExactString()] = true
					}
				}
			}
		}
		// a table that is assigned or stored into anywhere is not a constant table
		if keys != nil {
			ev.c.P.Funcs(func(p *pkgT, fd *ast.FuncDecl) {
				ast.Inspect(fd.Body, func(n ast.Node) bool {
					if as, ok := n.(*ast.AssignStmt); ok {
						for _, l := range as.Lhs {
							l = ast.Unparen(l)
							if x, ok := l.(*ast.IndexExpr); ok {
								l = ast.Unparen(x.X)
							}
							if lid, ok := l.(*ast.Ident); ok && p.TypesInfo.ObjectOf(lid) == types.Object(v) {
								keys = nil
							}
						}
					}
					return keys != nil
				})
			})
		}
		ev.tables[v] = keys
	}
	if keys == nil {
		return triUnknown
	}
	return triOf(keys[k.ExactString()])
}

// setBuilderKeys: call is g(k1, k2, ...) with constant arguments and g a set builder -
//
//	func g(kk ...E) map[E]V { m := make(map[E]V[, n]); for _, k := range kk { m[k] = <v> }; return m }
//
// - so the keys of the result are exactly the arguments.
func (ev *kindEval) setBuilderKeys(pk *pkgT, call *ast.CallExpr) map[string]bool {
	g := Callee(pk.TypesInfo, call)
	gd := ev.c.P.Decl(g)
	if gd == nil || call.Ellipsis != token.NoPos {
		return nil
	}
	gpk := ev.c.P.PkgOfDecl(gd)
	info := gpk.TypesInfo
	sig := g.Type().(*types.Signature)
	if !sig.Variadic() || sig.Params().Len() != 1 || sig.Results().Len() != 1 {
		return nil
	}
	body := gd.Body.List
	// an optional `if len(kk) == 0 { return nil }` in front: the nil map has no keys either
	if len(body) == 4 {
		ifs, ok := body[0].(*ast.IfStmt)
		if !ok || ifs.Init != nil || ifs.Else != nil || len(ifs.Body.List) != 1 {
			return nil
		}
		be, ok := ast.Unparen(ifs.Cond).(*ast.BinaryExpr)
		if !ok || be.Op != token.EQL {
			return nil
		}
		if _, isLen := lengthExpr(info, be.X); !isLen {
			return nil
		}
		if tv, ok := info.Types[be.Y]; !ok || tv.Value == nil || tv.Value.ExactString() != "0" {
			return nil
		}
		r, ok := ifs.Body.List[0].(*ast.ReturnStmt)
		if !ok || len(r.Results) != 1 {
			return nil
		}
		if tv, ok := info.Types[r.Results[0]]; !ok || !tv.IsNil() {
			return nil
		}
		body = body[1:]
	}
	if len(body) != 3 {
		return nil
	}
	if _, isMap := sig.Results().At(0).Type().Underlying().(*types.Map); !isMap {
		return nil
	}
	param := info.ObjectOf(gd.Type.Params.List[0].Names[0])
	mk, ok := body[0].(*ast.AssignStmt)
	if !ok || mk.Tok != token.DEFINE || len(mk.Lhs) != 1 || len(mk.Rhs) != 1 {
		return nil
	}
	mid, ok := mk.Lhs[0].(*ast.Ident)
	if !ok {
		return nil
	}
	mobj := info.ObjectOf(mid)
	switch v := ast.Unparen(mk.Rhs[0]).(type) {
	case *ast.CallExpr:
		if fid, ok := v.Fun.(*ast.Ident); !ok || fid.Name != "make" {
			return nil
		}
	case *ast.CompositeLit:
		if len(v.Elts) != 0 {
			return nil
		}
	default:
		return nil
	}
	rs, ok := body[1].(*ast.RangeStmt)
	if !ok || rs.Value == nil || len(rs.Body.List) != 1 {
		return nil
	}
	if x, ok := ast.Unparen(rs.X).(*ast.Ident); !ok || info.ObjectOf(x) != param {
		return nil
	}
	vid, ok := rs.Value.(*ast.Ident)
	if !ok {
		return nil
	}
	st, ok := rs.Body.List[0].(*ast.AssignStmt)
	if !ok || st.Tok != token.ASSIGN || len(st.Lhs) != 1 {
		return nil
	}
	ix, ok := ast.Unparen(st.Lhs[0]).(*ast.IndexExpr)
	if !ok {
		return nil
	}
	if x, ok := ast.Unparen(ix.X).(*ast.Ident); !ok || info.ObjectOf(x) != mobj {
		return nil
	}
	if x, ok := ast.Unparen(ix.Index).(*ast.Ident); !ok || info.ObjectOf(x) != info.ObjectOf(vid) {
		return nil
	}
	ret, ok := body[2].(*ast.ReturnStmt)
	if !ok || len(ret.Results) != 1 {
		return nil
	}
	if x, ok := ast.Unparen(ret.Results[0]).(*ast.Ident); !ok || info.ObjectOf(x) != mobj {
		return nil
	}
	keys := map[string]bool{}
	for _, a := range call.Args {
		tv, ok := pk.TypesInfo.Types[a]
		if !ok || tv.Value == nil {
			return nil
		}
		keys[tv.Value.ExactString()] = true
	}
	return keys
}

// ---------------------------------------------------------------- AT1

// RuleAT1: kinds of one class admit the same children. The enumeration has boolean class
// predicates written as `switch de { case A, B, C: return true }` (IsHTTPRequestMethod); the
// kinds of one class are interchangeable everywhere else in the code, so their rows in the
// allowed-children table list the same kinds. A row that admits one kind more (PATCH alone
// taking a TAG) makes a declaration that follows a block of that kind its child instead of
// a top-level declaration: it is silently lost, or the references to it fail.
func RuleAT1(c *Ctx) {
	sc := c.Run.Begin("AT1", "for every class predicate of directive.Enumeration (a switch that answers true for a list of kinds) the rows of the allowed-children table for the kinds of the class are equal", 1)
	defer sc.End()
	dpk := c.P.Pkg("directive")
	enumT := c.Named("directive", "Enumeration")
	if dpk == nil || enumT == nil {
		sc.Undecided("anchors", "-", "unresolved anchor: directive.Enumeration")
		return
	}
	info := dpk.TypesInfo
	nameOf := map[string]string{}
	for _, k := range EnumConsts(dpk, enumT) {
		nameOf[k.Val().ExactString()] = k.Name()
	}
	// the table rows
	rows := map[string]map[string]bool{}
	for _, file := range dpk.Syntax {
		for _, decl := range file.Decls {
			gd, ok := decl.(*ast.GenDecl)
			if !ok || gd.Tok != token.VAR {
				continue
			}
			for _, sp := range gd.Specs {
				vs, ok := sp.(*ast.ValueSpec)
				if !ok || len(vs.Values) != 1 {
					continue
				}
				cl, ok := ast.Unparen(vs.Values[0]).(*ast.CompositeLit)
				if !ok {
					continue
				}
				mt, ok := info.TypeOf(cl).Underlying().(*types.Map)
				if !ok || !types.Identical(mt.Key(), enumT) {
					continue
				}
				if inner, ok := mt.Elem().Underlying().(*types.Map); !ok || !types.Identical(inner.Key(), enumT) {
					continue
				}
				for _, el := range cl.Elts {
					kv, ok := el.(*ast.KeyValueExpr)
					if !ok {
						continue
					}
					ktv, ok := info.Types[kv.Key]
					if !ok || ktv.Value == nil {
						continue
					}
					row := map[string]bool{}
					for k := range enumConstsIn(dpk, enumT, kv.Value, 0) {
						row[k] = true
					}
					rows[ktv.Value.ExactString()] = row
				}
			}
		}
	}
	if len(rows) == 0 {
		sc.Undecided("table", "-", "unresolved anchor: the allowed-children table")
		return
	}
	n := 0
	for i := 0; i < enumT.NumMethods(); i++ {
		m := enumT.Method(i)
		sig := m.Type().(*types.Signature)
		if sig.Params().Len() != 0 || sig.Results().Len() != 1 {
			continue
		}
		if b, ok := sig.Results().At(0).Type().Underlying().(*types.Basic); !ok || b.Kind() != types.Bool {
			continue
		}
		fd := c.P.Decl(m)
		if fd == nil {
			continue
		}
		ev := &kindEval{c: c, enumT: enumT, tables: map[*types.Var]map[string]bool{}}
		set := map[string]bool{}
		decided := true
		for _, k := range EnumConsts(dpk, enumT) {
			switch ev.evalPredFor(fd, k.Val()) {
			case triTrue:
				set[k.Val().ExactString()] = true
			case triUnknown:
				decided = false
			}
		}
		if !decided || len(set) < 2 {
			continue
		}
		var members []string
		for k := range set {
			if _, has := rows[k]; has {
				members = append(members, k)
			}
		}
		if len(members) < 2 || len(members) != len(set) {
			continue // not a class of kinds that all have a context of their own
		}
		sort.Slice(members, func(a, b int) bool { return nameOf[members[a]] < nameOf[members[b]] })
		n++
		// majority row as the reference
		count := map[string]int{}
		sigOf := func(k string) string {
			var ks []string
			for x := range rows[k] {
				ks = append(ks, nameOf[x])
			}
			sort.Strings(ks)
			return strings.Join(ks, ",")
		}
		for _, k := range members {
			count[sigOf(k)]++
		}
		ref, best := "", 0
		for s, cnt := range count {
			if cnt > best || (cnt == best && s < ref) {
				ref, best = s, cnt
			}
		}
		if 2*best <= len(members) {
			// no row is shared by most members: the predicate groups kinds for another
			// reason (e.g. "has a context of its own") and says nothing about their rows
			sc.Info(m.Name(), c.P.Pos(fd.Pos()), fmt.Sprintf("not a class of interchangeable kinds: the most common row is shared by %d of %d members", best, len(members)))
			n++
			continue
		}
		var odd []string
		for _, k := range members {
			if s := sigOf(k); s != ref {
				odd = append(odd, fmt.Sprintf("%s admits {%s}", nameOf[k], s))
			}
		}
		key := m.Name()
		if len(odd) == 0 {
			sc.Holds(key, c.P.Pos(fd.Pos()), fmt.Sprintf("the %d kinds of the class admit the same children {%s}", len(members), ref))
		} else {
			sc.Violation(key, c.P.Pos(fd.Pos()), fmt.Sprintf("kinds of one class (%s) admit different children: %s, the others {%s} - a declaration written after a block of the odd kind nests into it instead of standing on its own", m.Name(), strings.Join(odd, "; "), ref))
		}
	}
	if n == 0 {
		sc.Undecided("classes", "-", "no class predicate whose kinds all have a row in the table")
	}
}

// ---------------------------------------------------------------- RT1

// RuleRT1: a kind that may stand at top level is looked for at top level. Every kind for
// which the root-context predicate answers true has a handler in the build table or is
// matched (by its constant) in a function of core that walks a root list of directives - a
// list field of JApiCore - or is reached from such a walk. A kind whose only consumer looks
// among the *children* of another directive (Tags) would be accepted at top level and then
// silently ignored.
func RuleRT1(c *Ctx) {
	sc := c.Run.Begin("RT1", "every directive kind admitted at top level has a build handler or is matched by a function that walks (or is reached from a walk over) a root list of directives", 5)
	defer sc.End()
	pk := c.P.Pkg("core")
	dpk := c.P.Pkg("directive")
	enumT := c.Named("directive", "Enumeration")
	dirT := c.Named("directive", "Directive")
	coreT := c.Named("core", "JApiCore")
	if pk == nil || dpk == nil || enumT == nil || dirT == nil || coreT == nil {
		sc.Undecided("anchors", "-", "unresolved anchor: core / directive")
		return
	}
	// the root-context predicate: the bool method of Enumeration that the resolver asks when
	// the current context is nil - found as the predicate called in the resolver family on the
	// placed directive's kind under the fact "context == nil"; by role: the method whose name
	// the resolver calls and whose true-set contains the kinds of all build handlers of
	// top-level blocks. Simpler and robust: every zero-argument bool method of Enumeration
	// called from the resolver family.
	resolver, _ := c.resolverFunc()
	if resolver == nil {
		sc.Undecided("anchors", "-", "unresolved anchor: the context resolver")
		return
	}
	info := pk.TypesInfo
	var preds []*types.Func
	seenP := map[*types.Func]bool{}
	for f := range c.familyOf(resolver) {
		fd := c.P.Decl(f)
		if fd == nil {
			continue
		}
		ast.Inspect(fd.Body, func(n ast.Node) bool {
			call, ok := n.(*ast.CallExpr)
			if !ok || len(call.Args) != 0 {
				return true
			}
			g := Callee(info, call)
			if g == nil || recvNamedOf(g) != enumT || seenP[g] {
				return true
			}
			sig := g.Type().(*types.Signature)
			if sig.Results().Len() != 1 {
				return true
			}
			if b, ok := sig.Results().At(0).Type().Underlying().(*types.Basic); ok && b.Kind() == types.Bool && strings.Contains(strings.ToLower(g.Name()), "root") {
				seenP[g] = true
				preds = append(preds, g)
			}
			return true
		})
	}
	if len(preds) == 0 {
		sc.Undecided("predicate", "-", "unresolved anchor: the root-context predicate asked by the resolver")
		return
	}
	table := c.handlerTable()
	// root lists: slice-of-*Directive fields of JApiCore
	rootField := map[*types.Var]bool{}
	if st, ok := coreT.Underlying().(*types.Struct); ok {
		for i := 0; i < st.NumFields(); i++ {
			if sl, ok := st.Field(i).Type().Underlying().(*types.Slice); ok {
				if pt, ok := sl.Elem().(*types.Pointer); ok && types.Identical(pt.Elem(), dirT) {
					rootField[st.Field(i)] = true
				}
			}
		}
	}
	isRootList := func(e ast.Expr) bool {
		sel, ok := ast.Unparen(e).(*ast.SelectorExpr)
		if !ok {
			return false
		}
		v, ok := info.ObjectOf(sel.Sel).(*types.Var)
		return ok && rootField[v]
	}
	var roots []*types.Func
	c.P.Funcs(func(p *pkgT, fd *ast.FuncDecl) {
		if p != pk {
			return
		}
		self, _ := info.Defs[fd.Name].(*types.Func)
		ast.Inspect(fd.Body, func(n ast.Node) bool {
			switch x := n.(type) {
			case *ast.RangeStmt:
				if isRootList(x.X) && self != nil {
					roots = append(roots, self)
				}
			case *ast.IndexExpr:
				if isRootList(x.X) && self != nil {
					roots = append(roots, self)
				}
			case *ast.CallExpr:
				for _, a := range x.Args {
					if isRootList(a) {
						if g := Callee(info, x); g != nil && c.P.Decl(g) != nil {
							roots = append(roots, g)
						}
					}
				}
			}
			return true
		})
	})
	walkers := reachStatic(c.P, pk, roots)
	mentions := map[string]bool{}
	for _, f := range walkers {
		fd := c.P.Decl(f)
		ast.Inspect(fd.Body, func(n ast.Node) bool {
			if sel, ok := n.(*ast.SelectorExpr); ok {
				if k, ok := info.ObjectOf(sel.Sel).(*types.Const); ok && types.Identical(k.Type(), enumT) {
					mentions[k.Name()] = true
				}
			}
			return true
		})
	}
	ev := &kindEval{c: c, enumT: enumT, tables: map[*types.Var]map[string]bool{}}
	for _, pr := range preds {
		fd := c.P.Decl(pr)
		if fd == nil {
			continue
		}
		for _, k := range EnumConsts(dpk, enumT) {
			v := ev.evalPredFor(fd, k.Val())
			if v == triFalse {
				continue
			}
			key := pr.Name() + ":" + k.Name()
			switch {
			case v == triUnknown:
				sc.Undecided(key, c.P.Pos(fd.Pos()), "the root-context predicate could not be evaluated for this kind")
			case table[k.Name()] != nil:
				sc.Holds(key, c.P.Pos(fd.Pos()), "has a build handler")
			case mentions[k.Name()]:
				sc.Holds(key, c.P.Pos(fd.Pos()), "matched by a walk over a root list of directives")
			default:
				sc.Violation(key, c.P.Pos(fd.Pos()), "the kind "+k.Name()+" is admitted at top level but nothing looks for it there (no build handler, and no function that walks a root list matches it): a "+k.Name()+" directive written at top level is accepted and silently ignored")
			}
		}
	}
}
