package rules

// PropSpec lists the rules that decide the structural part of one property.
type PropSpec struct {
	Rules       []Rule
	Explanation string
	Assume      []string
	Trusted     []string
}

var trustedCommon = []string{
	"Go type checker and golang.org/x/tools v0.29.0 (go/packages, go/cfg, go/ssa, callgraph/vta)",
	"jsight-schema-go-library (module cache): API methods return errors instead of panicking unless noted; deterministic; Len() never exceeds the bytes left",
	"standard library (encoding/json, regexp, sync, os, path/filepath)",
}

// Properties is filled by init functions of the rule files.
var Properties = map[string]*PropSpec{}

func reg(prop string, spec *PropSpec) { Properties[prop] = spec }

func r(id string, f func(*Ctx)) Rule { return Rule{ID: id, Run: f} }
