package rules

func init() {
	reg("C10", &PropSpec{
		Rules:       []Rule{r("O1", RuleO1), r("E3ii", RuleE3ii), r("D1", RuleD1), r("SO1", RuleSO1), r("PA1", RulePA1), r("K2p", RuleK2p), r("R4", RuleR4), r("BR1", RuleBR1), r("UP1", RuleUP1), r("H3", RuleH3)},
		Explanation: "The mechanisms that make declaration order immaterial are decided structurally: the schema library's typestate 'AddRule only before anything loads the schema' is respected for the shared user types - rules are added in a dedicated pass over all types that dominates every loading call (O1); work skipped by a run-wide visited set passes no caller-owned accumulator across the memo (E3ii); no order-sensitive map range (D1); macros, rules, tags and user types are all collected in compileCore before the catalog is built (SO1, stage order in the CFG of the pipeline). Not decided: permutation invariance of the catalog as a whole. Inside the allOf stage the user types are expanded before every other kind of schema and every expansion call is unconditional up to nil/notation tests (PA1); every keyword is visible to the description look-ahead (K2p). A directive is listed by the directive it names as Parent on every path (R4: a stale Parent lets the tags of a neighbouring block leak into a moved one); the build walk never consults the by-name collections it is still filling (BR1). The rule set is complete before the build walk starts (BR1 rules-complete); Update callbacks keep the element (UP1). A slot of the catalog that one directive fills is assigned only behind a test that it is still empty, the occupied case being an error (H3): a slot silently overwritten - or kept from an earlier block - makes the result depend on which declaration comes last.",
		Trusted:     trustedCommon,
	})
}
