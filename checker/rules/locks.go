package rules

import (
	"fmt"
	"go/ast"
	"go/token"
	"go/types"
	"sort"
	"strings"

	"verif/checker/cfgx"
	"verif/checker/load"
)

type lockedType struct {
	named *types.Named
	pk    *pkgT
	mx    *types.Var
	rw    bool
}

// lockedTypes: struct types of the repo with a sync.Mutex / sync.RWMutex field.
func (c *Ctx) lockedTypes() []lockedType {
	var out []lockedType
	for _, pk := range c.P.Repo {
		for _, name := range pk.Types.Scope().Names() {
			tn, ok := pk.Types.Scope().Lookup(name).(*types.TypeName)
			if !ok {
				continue
			}
			named, ok := tn.Type().(*types.Named)
			if !ok {
				continue
			}
			st, ok := named.Underlying().(*types.Struct)
			if !ok {
				continue
			}
			for i := 0; i < st.NumFields(); i++ {
				f := st.Field(i)
				if n, ok := f.Type().(*types.Named); ok && n.Obj().Pkg() != nil && n.Obj().Pkg().Path() == "sync" {
					if n.Obj().Name() == "RWMutex" || n.Obj().Name() == "Mutex" {
						out = append(out, lockedType{named, pk, f, n.Obj().Name() == "RWMutex"})
					}
				}
			}
		}
	}
	sort.Slice(out, func(i, j int) bool { return out[i].named.String() < out[j].named.String() })
	return out
}

// lockKind of a method: "W", "R" or "" - the lock it takes with the
// Lock(); defer Unlock() idiom at its top.
func lockKindOf(info *types.Info, fd *ast.FuncDecl, mx *types.Var) string {
	kind := ""
	for _, st := range fd.Body.List {
		es, ok := st.(*ast.ExprStmt)
		if !ok {
			continue
		}
		call, ok := es.X.(*ast.CallExpr)
		if !ok {
			continue
		}
		sel, ok := call.Fun.(*ast.SelectorExpr)
		if !ok || !fieldSel(info, sel.X, mx) {
			continue
		}
		switch sel.Sel.Name {
		case "Lock":
			kind = "W"
		case "RLock":
			if kind == "" {
				kind = "R"
			}
		}
	}
	return kind
}

// RuleG1: lock discipline of every type that carries a mutex.
func RuleG1(c *Ctx) {
	sc := c.Run.Begin("G1", "in every type with a mutex field, each method reads the fields it guards with the lock held (R or W) and writes them with the write lock held, on every path; unexported helpers that touch them unlocked are called only with the lock held; the unsynchronised UserSchemas variant is never shared", 1)
	defer sc.End()
	lts := c.lockedTypes()
	if len(lts) < 6 {
		sc.Undecided("types", "-", fmt.Sprintf("only %d mutex-carrying types found", len(lts)))
	}
	for _, lt := range lts {
		info := lt.pk.TypesInfo
		st := lt.named.Underlying().(*types.Struct)
		// guarded fields: written by some method (directly or through them)
		guarded := map[*types.Var]bool{}
		methods := []*types.Func{}
		for i := 0; i < lt.named.NumMethods(); i++ {
			methods = append(methods, lt.named.Method(i))
		}
		isField := func(v *types.Var) bool {
			for i := 0; i < st.NumFields(); i++ {
				if st.Field(i) == v && v != lt.mx {
					return true
				}
			}
			return false
		}
		recvOf := func(fd *ast.FuncDecl) types.Object {
			if fd.Recv != nil && len(fd.Recv.List) == 1 && len(fd.Recv.List[0].Names) == 1 {
				return info.ObjectOf(fd.Recv.List[0].Names[0])
			}
			return nil
		}
		// first field on the access path from the receiver
		firstField := func(e ast.Expr, recv types.Object) *types.Var {
			var last *types.Var
			for {
				e = ast.Unparen(e)
				switch x := e.(type) {
				case *ast.SelectorExpr:
					if v, ok := info.ObjectOf(x.Sel).(*types.Var); ok && v.IsField() {
						if id, ok := ast.Unparen(x.X).(*ast.Ident); ok && recv != nil && info.ObjectOf(id) == recv && isField(v) {
							return v
						}
						last = v
					}
					e = x.X
				case *ast.IndexExpr:
					e = x.X
				case *ast.StarExpr:
					e = x.X
				case *ast.SliceExpr:
					e = x.X
				default:
					_ = last
					return nil
				}
			}
		}
		var directlyAssigned map[*types.Var]bool
		type access struct {
			node  ast.Node
			field *types.Var
			write bool
		}
		accessesOf := func(fd *ast.FuncDecl) []access {
			recv := recvOf(fd)
			var out []access
			writes := map[ast.Node]bool{}
			ast.Inspect(fd.Body, func(n ast.Node) bool {
				switch x := n.(type) {
				case *ast.AssignStmt:
					for _, l := range x.Lhs {
						if f := firstField(l, recv); f != nil {
							out = append(out, access{l, f, true})
							writes[l] = true
						}
					}
				case *ast.IncDecStmt:
					if f := firstField(x.X, recv); f != nil {
						out = append(out, access{x.X, f, true})
						writes[x.X] = true
					}
				case *ast.CallExpr:
					if id, ok := x.Fun.(*ast.Ident); ok && id.Name == "delete" && len(x.Args) == 2 {
						if f := firstField(x.Args[0], recv); f != nil {
							out = append(out, access{x.Args[0], f, true})
							writes[x.Args[0]] = true
						}
					}
				}
				return true
			})
			// a pointer-typed field read as a bare value (not selected or indexed further) reads
			// only the pointer, which no method reassigns
			barePointer := map[*ast.SelectorExpr]bool{}
			inner := map[ast.Expr]bool{}
			ast.Inspect(fd.Body, func(n ast.Node) bool {
				switch x := n.(type) {
				case *ast.SelectorExpr:
					inner[ast.Unparen(x.X)] = true
				case *ast.IndexExpr:
					inner[ast.Unparen(x.X)] = true
				case *ast.SliceExpr:
					inner[ast.Unparen(x.X)] = true
				case *ast.StarExpr:
					inner[ast.Unparen(x.X)] = true
				}
				return true
			})
			ast.Inspect(fd.Body, func(n ast.Node) bool {
				if sel, ok := n.(*ast.SelectorExpr); ok && !inner[sel] {
					if v, ok := info.ObjectOf(sel.Sel).(*types.Var); ok {
						if _, isPtr := v.Type().(*types.Pointer); isPtr {
							barePointer[sel] = true
						}
					}
				}
				return true
			})
			ast.Inspect(fd.Body, func(n ast.Node) bool {
				sel, ok := n.(*ast.SelectorExpr)
				if !ok || writes[sel] {
					return true
				}
				if v, ok := info.ObjectOf(sel.Sel).(*types.Var); ok && isField(v) {
					if id, ok := ast.Unparen(sel.X).(*ast.Ident); ok && recv != nil && info.ObjectOf(id) == recv {
						// skip if this selector is the root of a recorded write (m.data in m.data[k] = v)
						isW := false
						for w := range writes {
							if w.Pos() <= sel.Pos() && sel.End() <= w.End() {
								isW = true
							}
						}
						if !isW && !(barePointer[sel] && directlyAssigned != nil && !directlyAssigned[v]) {
							out = append(out, access{sel, v, false})
						}
					}
				}
				return true
			})
			return out
		}
		for _, m := range methods {
			if fd := c.P.Decl(m); fd != nil {
				for _, a := range accessesOf(fd) {
					if a.write {
						guarded[a.field] = true
					}
				}
			}
		}
		// fields assigned as a whole (recv.F = ...) by some method
		directlyAssigned = map[*types.Var]bool{}
		for _, m := range methods {
			fd := c.P.Decl(m)
			if fd == nil {
				continue
			}
			recv := recvOf(fd)
			ast.Inspect(fd.Body, func(n ast.Node) bool {
				if as, ok := n.(*ast.AssignStmt); ok {
					for _, l := range as.Lhs {
						if sel, ok := ast.Unparen(l).(*ast.SelectorExpr); ok {
							if id, ok := ast.Unparen(sel.X).(*ast.Ident); ok && recv != nil && info.ObjectOf(id) == recv {
								if v, ok := info.ObjectOf(sel.Sel).(*types.Var); ok {
									directlyAssigned[v] = true
								}
							}
						}
					}
				}
				return true
			})
		}
		// each method
		for _, m := range methods {
			fd := c.P.Decl(m)
			if fd == nil {
				continue
			}
			cf := c.CFG(lt.pk, fd.Body)
			held := func(at ast.Node, needW bool) bool {
				genStmt := func(nd ast.Node) bool {
					es, ok := nd.(*ast.ExprStmt)
					if !ok {
						return false
					}
					call, ok := es.X.(*ast.CallExpr)
					if !ok {
						return false
					}
					sel, ok := call.Fun.(*ast.SelectorExpr)
					if !ok || !fieldSel(info, sel.X, lt.mx) {
						return false
					}
					return sel.Sel.Name == "Lock" || (!needW && sel.Sel.Name == "RLock")
				}
				kill := func(nd ast.Node) bool {
					es, ok := nd.(*ast.ExprStmt) // deferred unlocks are DeferStmt and do not kill
					if !ok {
						return false
					}
					call, ok := es.X.(*ast.CallExpr)
					if !ok {
						return false
					}
					sel, ok := call.Fun.(*ast.SelectorExpr)
					return ok && fieldSel(info, sel.X, lt.mx) && (sel.Sel.Name == "Unlock" || sel.Sel.Name == "RUnlock")
				}
				return cf.MustAt(at, nil, genStmt, kill)
			}
			var unlocked []string
			nAcc := 0
			for _, a := range accessesOf(fd) {
				if !guarded[a.field] && !a.write {
					continue
				}
				nAcc++
				if !held(a.node, a.write) {
					kind := "read"
					if a.write {
						kind = "written"
					}
					unlocked = append(unlocked, fmt.Sprintf("%s %s at %s", a.field.Name(), kind, c.P.Pos(a.node.Pos())))
				}
			}
			if nAcc == 0 {
				continue
			}
			// re-entrancy: while holding the lock, no call to a method of the same receiver that
			// takes the lock again (sync.RWMutex is not re-entrant: a second RLock blocks behind a
			// waiting writer, a Lock blocks behind our own lock)
			recvObj := recvOf(fd)
			ast.Inspect(fd.Body, func(n ast.Node) bool {
				call, ok := n.(*ast.CallExpr)
				if !ok {
					return true
				}
				g := Callee(info, call)
				if g == nil || recvNamedOf(g) != lt.named {
					return true
				}
				rid, ok := ast.Unparen(Recv(call)).(*ast.Ident)
				if !ok || recvObj == nil || info.ObjectOf(rid) != recvObj {
					return true
				}
				gd := c.P.Decl(g)
				if gd == nil || lockKindOf(info, gd, lt.mx) == "" {
					return true
				}
				if held(call, false) {
					unlocked = append(unlocked, fmt.Sprintf("calls %s (which locks again) at %s while holding the lock: self-deadlock as soon as a writer is waiting", g.Name(), c.P.Pos(call.Pos())))
					nAcc++
				} else if lockKindOf(info, fd, lt.mx) == "W" {
					// check-then-act: a locking read of the same receiver made outside the
					// critical section of a method that then takes the write lock. Whatever it
					// answered may be stale by the time the lock is held (two writers both see
					// "absent" and both append the key).
					takesLater := false
					ast.Inspect(fd.Body, func(y ast.Node) bool {
						if lc, ok := y.(*ast.CallExpr); ok && lc.Pos() > call.End() {
							if lsel, ok := lc.Fun.(*ast.SelectorExpr); ok && fieldSel(info, lsel.X, lt.mx) && lsel.Sel.Name == "Lock" {
								takesLater = true
							}
						}
						return true
					})
					if takesLater {
						unlocked = append(unlocked, fmt.Sprintf("asks %s (a locking read of the same receiver) at %s before taking the write lock: the answer can be stale once the lock is held (check-then-act is not atomic: two writers can both find the key absent and both insert it)", g.Name(), c.P.Pos(call.Pos())))
						nAcc++
					}
				}
				return true
			})
			key := lt.named.Obj().Name() + "." + m.Name()
			pos := c.P.Pos(fd.Pos())
			if len(unlocked) == 0 {
				sc.Holds(key, pos, fmt.Sprintf("%d guarded accesses, all under the lock", nAcc))
				continue
			}
			// an unexported helper may rely on its callers holding the lock
			if !m.Exported() {
				sites := c.callSitesOf(m)
				allHeld := len(sites) > 0
				for _, cs := range sites {
					caller := declObj(cs)
					if caller == nil || recvNamedOf(caller) != lt.named {
						allHeld = false
						continue
					}
					ccf := c.CFG(cs.Pk, cs.Body)
					genStmt := func(nd ast.Node) bool {
						es, ok := nd.(*ast.ExprStmt)
						if !ok {
							return false
						}
						call, ok := es.X.(*ast.CallExpr)
						if !ok {
							return false
						}
						sel, ok := call.Fun.(*ast.SelectorExpr)
						return ok && fieldSel(info, sel.X, lt.mx) && (sel.Sel.Name == "Lock" || sel.Sel.Name == "RLock")
					}
					if !ccf.MustAt(cs.Call, nil, genStmt, nil) {
						allHeld = false
					}
				}
				if allHeld {
					sc.Holds(key, pos, fmt.Sprintf("unexported helper; all %d callers hold the lock", len(sites)))
					continue
				}
			}
			sc.Violation(key, pos, "guarded state is accessed without the lock: "+strings.Join(unlocked, "; ")+" — concurrent readers/writers of the catalog collections race (lost update, torn order)")
		}
	}
	// the unsynchronised ordered map must not be reachable from a package-level variable
	for _, oc := range c.orderedCollections() {
		if oc.mx != nil {
			continue
		}
		shared := ""
		for _, pk := range c.P.Repo {
			for _, name := range pk.Types.Scope().Names() {
				if v, ok := pk.Types.Scope().Lookup(name).(*types.Var); ok && typeMentions(v.Type(), oc.named, 0) {
					shared = v.Name()
				}
			}
		}
		key := "unsynchronised:" + oc.named.Obj().Name()
		if shared == "" {
			sc.Holds(key, "-", "no package-level variable can reach a value of this type: instances are per parse (no goroutines: D2)")
		} else {
			sc.Violation(key, "-", "the lock-free collection "+oc.named.Obj().Name()+" is reachable from package-level variable "+shared)
		}
	}
}

func typeMentions(t types.Type, target *types.Named, depth int) bool {
	if depth > 4 {
		return false
	}
	switch x := t.(type) {
	case *types.Named:
		if x == target {
			return true
		}
		return typeMentions(x.Underlying(), target, depth+1)
	case *types.Pointer:
		return typeMentions(x.Elem(), target, depth+1)
	case *types.Slice:
		return typeMentions(x.Elem(), target, depth+1)
	case *types.Map:
		return typeMentions(x.Elem(), target, depth+1) || typeMentions(x.Key(), target, depth+1)
	case *types.Struct:
		for i := 0; i < x.NumFields(); i++ {
			if typeMentions(x.Field(i).Type(), target, depth+1) {
				return true
			}
		}
	}
	return false
}

// RuleL1: no callback run under a collection's lock re-enters the same collection
// with an incompatible lock.
func RuleL1(c *Ctx) {
	sc := c.Run.Begin("L1", "no function literal passed to a locking iterator/updater of a collection reaches (through static calls) a method of the same collection field that needs an incompatible lock (anything inside a write lock, a write inside a read lock): no self-deadlock", 1)
	defer sc.End()
	lts := c.lockedTypes()
	kindOf := map[*types.Func]string{}
	byNamed := map[*types.Named]lockedType{}
	for _, lt := range lts {
		byNamed[lt.named] = lt
		for i := 0; i < lt.named.NumMethods(); i++ {
			m := lt.named.Method(i)
			if fd := c.P.Decl(m); fd != nil {
				kindOf[m] = lockKindOf(lt.pk.TypesInfo, fd, lt.mx)
			}
		}
	}
	n := 0
	c.eachCall(func(cs callSite) {
		info := cs.Pk.TypesInfo
		f := Callee(info, cs.Call)
		if f == nil || kindOf[f] == "" {
			return
		}
		var lit *ast.FuncLit
		for _, a := range cs.Call.Args {
			if l, ok := a.(*ast.FuncLit); ok {
				lit = l
			}
		}
		if lit == nil {
			return
		}
		collField := lastField(info, Recv(cs.Call))
		if collField == nil {
			return
		}
		n++
		key := fmt.Sprintf("%s:%s.%s#%d", c.P.DeclName(cs.Decl), collField.Name(), f.Name(), n)
		outer := kindOf[f]
		bad := ""
		seen := map[*types.Func]bool{}
		var visit func(body ast.Node, pk *pkgT, depth int)
		visit = func(body ast.Node, pk *pkgT, depth int) {
			ast.Inspect(body, func(x ast.Node) bool {
				call, ok := x.(*ast.CallExpr)
				if !ok || bad != "" {
					return bad == ""
				}
				g := Callee(pk.TypesInfo, call)
				if g == nil {
					return true
				}
				if k := kindOf[g]; k != "" {
					if lf := lastField(pk.TypesInfo, Recv(call)); lf == collField {
						if outer == "W" || k == "W" {
							bad = fmt.Sprintf("%s (lock %s) is called at %s while %s holds lock %s on the same collection", g.Name(), k, c.P.Pos(call.Pos()), f.Name(), outer)
						}
					}
					return true
				}
				if depth < 4 && !seen[g] {
					if gd := c.P.Decl(g); gd != nil {
						seen[g] = true
						visit(gd.Body, c.P.PkgOfDecl(gd), depth+1)
					}
				}
				return true
			})
		}
		visit(lit.Body, cs.Pk, 0)
		if bad == "" {
			sc.Holds(key, c.P.Pos(cs.Call.Pos()), "callback under lock "+outer+" does not re-enter "+collField.Name())
		} else {
			sc.Violation(key, c.P.Pos(cs.Call.Pos()), "self-deadlock: "+bad)
		}
	})
}

// lastField: the struct field an expression like core.catalog.Interactions ends with.
func lastField(info *types.Info, e ast.Expr) *types.Var {
	if e == nil {
		return nil
	}
	if sel, ok := ast.Unparen(e).(*ast.SelectorExpr); ok {
		if v, ok := info.ObjectOf(sel.Sel).(*types.Var); ok && v.IsField() {
			return v
		}
	}
	return nil
}

var _ = cfgx.SameExpr
var _ = load.FuncName
var _ = token.ADD

// ---------------------------------------------------------------- RO1

// RuleRO1: serialising is reading. The Marshal* / String methods of the repository, and the
// same-package functions they reach by static calls, store into nothing that is reachable
// from their receiver or parameters through an indirection (a pointer receiver's field, an
// element of a slice or map, a field behind a pointer). A value receiver's own field is a
// private copy and does not count. A serialiser that "normalises" the node it prints writes
// shared state under a read-only API: two goroutines calling ToJson on one validated
// catalog race, which C16 promises they do not.
func RuleRO1(c *Ctx) {
	sc := c.Run.Begin("RO1", "no serialiser (Marshal*/String method, or a same-package function it reaches statically) stores into state reachable from its receiver or parameters through an indirection", 5)
	defer sc.End()
	isSerialiser := func(name string) bool {
		switch name {
		case "MarshalJSON", "MarshalText", "String", "MarshalBinary":
			return true
		}
		return false
	}
	n := 0
	for _, pk := range c.P.Repo {
		info := pk.TypesInfo
		var roots []*types.Func
		for _, file := range pk.Syntax {
			if c.P.IsTestFile(file) {
				continue
			}
			for _, d := range file.Decls {
				fd, ok := d.(*ast.FuncDecl)
				if !ok || fd.Recv == nil || fd.Body == nil || !isSerialiser(fd.Name.Name) {
					continue
				}
				if f, ok := info.Defs[fd.Name].(*types.Func); ok {
					roots = append(roots, f)
				}
			}
		}
		if len(roots) == 0 {
			continue
		}
		for _, f := range reachStatic(c.P, pk, roots) {
			fd := c.P.Decl(f)
			if fd == nil || fd.Body == nil {
				continue
			}
			// receiver and parameters
			owned := map[types.Object]bool{}
			for _, fl := range []*ast.FieldList{fd.Recv, fd.Type.Params} {
				if fl == nil {
					continue
				}
				for _, fld := range fl.List {
					for _, nm := range fld.Names {
						if o := info.ObjectOf(nm); o != nil {
							owned[o] = true
						}
					}
				}
			}
			// a store through lhs reaches shared state when the path from an owned root
			// crosses an indirection
			shared := func(lhs ast.Expr) (bool, string) {
				indirect := false
				e := ast.Unparen(lhs)
				for {
					switch x := e.(type) {
					case *ast.SelectorExpr:
						if t := info.TypeOf(x.X); t != nil {
							if _, isPtr := t.Underlying().(*types.Pointer); isPtr {
								indirect = true
							}
						}
						e = ast.Unparen(x.X)
						continue
					case *ast.IndexExpr:
						if t := info.TypeOf(x.X); t != nil {
							switch t.Underlying().(type) {
							case *types.Slice, *types.Map, *types.Pointer:
								indirect = true
							}
						}
						e = ast.Unparen(x.X)
						continue
					case *ast.StarExpr:
						indirect = true
						e = ast.Unparen(x.X)
						continue
					case *ast.Ident:
						o := info.ObjectOf(x)
						if owned[o] && indirect {
							return true, x.Name
						}
					}
					return false, ""
				}
			}
			n++
			bad := ""
			ast.Inspect(fd.Body, func(nd ast.Node) bool {
				var lhss []ast.Expr
				switch s := nd.(type) {
				case *ast.AssignStmt:
					if s.Tok != token.DEFINE {
						lhss = s.Lhs
					}
				case *ast.IncDecStmt:
					lhss = []ast.Expr{s.X}
				}
				for _, l := range lhss {
					if _, isId := ast.Unparen(l).(*ast.Ident); isId {
						continue
					}
					if ok, root := shared(l); ok && bad == "" {
						bad = fmt.Sprintf("%s at %s (through %s)", types.ExprString(l), c.P.Pos(l.Pos()), root)
					}
				}
				return true
			})
			key := c.P.DeclName(fd)
			if bad == "" {
				sc.Holds(key, c.P.Pos(fd.Pos()), "stores into nothing reachable from its receiver or parameters")
			} else {
				sc.Violation(key, c.P.Pos(fd.Pos()), "a serialiser writes the value it serialises: "+bad+" - concurrent ToJson calls on one validated catalog (or a serialisation during a read) race on that field")
			}
		}
	}
	if n == 0 {
		sc.Undecided("serialisers", "-", "no Marshal*/String method found")
	}
}

// ---------------------------------------------------------------- LK1

// RuleLK1: a lock taken is released on every way out. In a function that calls Lock/RLock
// on a sync mutex and does not defer the matching unlock right away, every `return` (and the
// end of the body) is reached only with the lock released: after the last acquisition on
// the path there is an Unlock/RUnlock. An early `return err` inside a loop that skips the
// unlock after the loop leaves the read lock held; readers go on, the first writer blocks
// for ever and every later reader behind it.
func RuleLK1(c *Ctx) {
	sc := c.Run.Begin("LK1", "in every function that takes a mutex without deferring its release, each return and the end of the body are reached only after the matching unlock", 5)
	defer sc.End()
	n, nDeferred := 0, 0
	c.P.Funcs(func(pk *pkgT, fd *ast.FuncDecl) {
		info := pk.TypesInfo
		isMutexCall := func(nd ast.Node, names ...string) (bool, string) {
			es, ok := nd.(*ast.ExprStmt)
			if !ok {
				return false, ""
			}
			call, ok := es.X.(*ast.CallExpr)
			if !ok {
				return false, ""
			}
			g := Callee(info, call)
			if g == nil || g.Pkg() == nil || g.Pkg().Path() != "sync" {
				return false, ""
			}
			for _, nm := range names {
				if g.Name() == nm {
					return true, types.ExprString(Recv(call))
				}
			}
			return false, ""
		}
		// acquisitions that are not immediately followed by the deferred release
		type acq struct {
			stmt ast.Stmt
			recv string
			read bool
		}
		var acqs []acq
		var scan func(list []ast.Stmt)
		scan = func(list []ast.Stmt) {
			for i, st := range list {
				if ok, recv := isMutexCall(st, "Lock", "RLock"); ok {
					read, _ := isMutexCall(st, "RLock")
					deferred := false
					if i+1 < len(list) {
						if d, isDefer := list[i+1].(*ast.DeferStmt); isDefer {
							if g := Callee(info, d.Call); g != nil && (g.Name() == "Unlock" || g.Name() == "RUnlock") && types.ExprString(Recv(d.Call)) == recv {
								deferred = true
							}
						}
					}
					if !deferred {
						acqs = append(acqs, acq{st, recv, read})
					} else {
						n++
						nDeferred++
					}
				}
				ast.Inspect(st, func(y ast.Node) bool {
					if b, ok := y.(*ast.BlockStmt); ok {
						scan(b.List)
						return false
					}
					if _, isLit := y.(*ast.FuncLit); isLit {
						return false
					}
					return true
				})
			}
		}
		scan(fd.Body.List)
		if len(acqs) == 0 {
			return
		}
		cf := c.CFG(pk, fd.Body)
		for i, a := range acqs {
			n++
			key := fmt.Sprintf("%s#%d", c.P.DeclName(fd), i+1)
			unl := "Unlock"
			if a.read {
				unl = "RUnlock"
			}
			released := func(nd ast.Node) bool {
				ok, recv := isMutexCall(nd, unl)
				return ok && recv == a.recv
			}
			taken := func(nd ast.Node) bool { return nd == ast.Node(a.stmt) }
			bad := ""
			inspectNoLit(fd.Body, func(nd ast.Node) bool {
				if ret, ok := nd.(*ast.ReturnStmt); ok {
					if !cf.MustAtInit(ret, true, nil, released, taken) {
						bad = "the return at " + c.P.Pos(ret.Pos())
					}
				}
				return true
			})
			if last := fd.Body.List[len(fd.Body.List)-1]; bad == "" {
				if _, isRet := last.(*ast.ReturnStmt); !isRet && !released(last) {
					if taken(last) || !cf.MustAtInit(last, true, nil, released, taken) {
						bad = "the end of the function"
					}
				}
			}
			if bad == "" {
				sc.Holds(key, c.P.Pos(a.stmt.Pos()), "released on every way out")
			} else {
				sc.Violation(key, c.P.Pos(a.stmt.Pos()), fmt.Sprintf("%s is taken here and %s is reached without %s: the lock stays held - later readers still pass, the first writer blocks for ever and then everybody behind it", a.recv, bad, unl))
			}
		}
	})
	if nDeferred > 0 {
		for i := 0; i < nDeferred; i++ {
			sc.Holds(fmt.Sprintf("deferred#%d", i+1), "-", "the release is deferred right after the acquisition")
		}
	}
	if n == 0 {
		sc.Undecided("sites", "-", "no mutex acquisition found")
	}
}
