package rules

func init() {
	reg("C11", &PropSpec{
		Rules:       []Rule{r("H1", RuleH1), r("H2", RuleH2), r("H3", RuleH3), r("K1", RuleK1), r("CK1", RuleCK1), r("MC1", RuleMC1), r("FC1", RuleFC1), r("PU1", RulePU1), r("RP1", RuleRP1), r("TP1", RuleTP1), r("LR1", RuleLR1), r("NE2", RuleNE2), r("SH1", RuleSH1), r("KI1", RuleKI1)},
		Explanation: "The mechanism each static check relies on is present on every path at every site: every insert into a uniqueness collection is dominated by a membership test on the same collection and key (H1), every directive parameter that becomes a collection key is compared with the empty string first (H2), every singleton slot of the catalog model is written only after a test that it is still empty (H3), and every directive kind has a consumer so the checks are reached for it (K1). Decides presence of the mechanism, not that each diagnostic is located at the offending directive nor the similar-path string logic. No found-means-done shortcut bypasses a duplicate-rejecting inserter (MC1); kind tests that reject something are fail-closed (FC1). The one-Path-per-parent test is decided from everything the walk met, not from a neighbouring element (PU1). 'Required parameter P' is reached exactly under NamedParameter(P) == \"\" (RP1). No loop over a slice ends unconditionally in its first iteration (LR1); the error that came with a value is the one tested before the value is used (NE2); no verdict is lost in a shadowed error variable (SH1); own Tags are resolved before the URL's (TP1). A uniqueness set is keyed by the scope it protects, never by a directive's kind alone (KI1).",
		Trusted:     trustedCommon,
	})
}
