// Package report collects the obligations a run discharged, applies the committed
// known-findings list, writes the evidence file and produces the exit status.
package report

import (
	"encoding/json"
	"fmt"
	"os"
	"path/filepath"
	"sort"
	"strings"
	"time"
)

// Verdicts.
const (
	Holds     = "holds"
	Violation = "violation"
	Exception = "exception" // frozen single-symbol exception compiled into the checker
	Info      = "info"      // reported, never alarmed
)

// Obligation is one rule instance on one construct.
type Obligation struct {
	Rule    string `json:"rule"`
	Key     string `json:"key"` // stable: rule + construct, never a line number
	Pos     string `json:"pos,omitempty"`
	Verdict string `json:"verdict"`
	Detail  string `json:"detail,omitempty"`
}

// RuleStat summarises one rule of a run.
type RuleStat struct {
	Rule        string `json:"rule"`
	What        string `json:"what"`
	Instances   int    `json:"instances"`
	Holds       int    `json:"holds"`
	Exceptions  int    `json:"exceptions"`
	Violations  int    `json:"violations"`
	Floor       int    `json:"floor"`
	Extra       any    `json:"extra,omitempty"`
	DurationSec float64 `json:"duration_s"`
}

// Run accumulates the result of checking one property.
type Run struct {
	Property string
	Tier     string
	Seed     int64
	Start    time.Time
	Obs      []Obligation
	Stats    []RuleStat
	Notes    []string
	Assume   []string
	Trusted  []string
	Extra    map[string]any
	FuncsAnalysed int
}

func NewRun(prop, tier string, seed int64) *Run {
	return &Run{Property: prop, Tier: tier, Seed: seed, Start: time.Now(), Extra: map[string]any{}}
}

// RuleScope is handed to one rule; it records obligations under the rule id.
type RuleScope struct {
	run   *Run
	rule  string
	what  string
	floor int
	start time.Time
	n, h, e, v int
	extra any
	seen map[string]bool
}

// Begin starts a rule. floor is the minimum number of instances the rule must find
// (a rule that matches nothing passes vacuously forever).
func (r *Run) Begin(rule, what string, floor int) *RuleScope {
	return &RuleScope{run: r, rule: rule, what: what, floor: floor, start: time.Now(), seen: map[string]bool{}}
}

func (s *RuleScope) add(key, pos, verdict, detail string) {
	k := s.rule + ":" + key
	if s.seen[k] {
		// keep keys unique within a run so known-findings match exactly one thing
		for i := 2; ; i++ {
			kk := fmt.Sprintf("%s#%d", k, i)
			if !s.seen[kk] {
				k = kk
				break
			}
		}
	}
	s.seen[k] = true
	s.run.Obs = append(s.run.Obs, Obligation{Rule: s.rule, Key: k, Pos: pos, Verdict: verdict, Detail: detail})
}

func (s *RuleScope) Holds(key, pos, detail string)     { s.n++; s.h++; s.add(key, pos, Holds, detail) }
func (s *RuleScope) Violation(key, pos, detail string) { s.n++; s.v++; s.add(key, pos, Violation, detail) }
func (s *RuleScope) Exception(key, pos, detail string) { s.n++; s.e++; s.add(key, pos, Exception, detail) }
func (s *RuleScope) Info(key, pos, detail string)      { s.add(key, pos, Info, detail) }
func (s *RuleScope) SetExtra(v any)                    { s.extra = v }

// Undecided is a failure: the analysis met a construct it does not understand or an
// anchor it cannot resolve.
func (s *RuleScope) Undecided(key, pos, detail string) {
	s.n++
	s.v++
	s.add("undecided:"+key, pos, Violation, "UNDECIDED: "+detail)
}

// End closes the rule, enforcing the instance floor.
func (s *RuleScope) End() {
	if s.n < s.floor {
		s.v++
		s.add("floor", "-", Violation, fmt.Sprintf("rule matched %d instances, fewer than the floor %d confirmed by hand: anchors moved or the rule no longer sees the code", s.n, s.floor))
	}
	s.run.Stats = append(s.run.Stats, RuleStat{Rule: s.rule, What: s.what, Instances: s.n, Holds: s.h, Exceptions: s.e,
		Violations: s.v, Floor: s.floor, Extra: s.extra, DurationSec: time.Since(s.start).Seconds()})
}

// ---------------------------------------------------------------- known findings

type KnownFinding struct {
	Property string `json:"property"`
	Key      string `json:"key"`
	What     string `json:"what"`
}

type FixedRecord struct {
	Property string `json:"property"`
	Commit   string `json:"commit"`
	What     string `json:"what"`
}

type KnownFile struct {
	Findings []KnownFinding `json:"known_findings"`
	Fixed    []string       `json:"fixed"`
}

func LoadKnown(path string) (*KnownFile, error) {
	b, err := os.ReadFile(path)
	if err != nil {
		if os.IsNotExist(err) {
			return &KnownFile{}, nil
		}
		return nil, err
	}
	var k KnownFile
	if err := json.Unmarshal(b, &k); err != nil {
		return nil, fmt.Errorf("%s: %w", path, err)
	}
	return &k, nil
}

// ---------------------------------------------------------------- finishing

// Finish prints the outcome, writes evidence and returns the process exit code.
func (r *Run) Finish(verifDir string, known *KnownFile, explanation string) int {
	sort.SliceStable(r.Obs, func(i, j int) bool {
		if r.Obs[i].Rule != r.Obs[j].Rule {
			return r.Obs[i].Rule < r.Obs[j].Rule
		}
		return r.Obs[i].Key < r.Obs[j].Key
	})
	knownKeys := map[string]KnownFinding{}
	for _, k := range known.Findings {
		if k.Property == r.Property {
			knownKeys[k.Key] = k
		}
	}
	var viol, knownHit []Obligation
	obligations, discharged, exceptions := 0, 0, 0
	for _, o := range r.Obs {
		switch o.Verdict {
		case Holds:
			obligations++
			discharged++
		case Exception:
			obligations++
			discharged++
			exceptions++
		case Violation:
			obligations++
			if _, ok := knownKeys[o.Key]; ok {
				knownHit = append(knownHit, o)
			} else {
				viol = append(viol, o)
			}
		}
	}
	for _, o := range knownHit {
		fmt.Printf("KNOWN-FINDING: property=%s %s [%s at %s]\n", r.Property, knownKeys[o.Key].What, o.Key, o.Pos)
	}
	replayDir := filepath.Join(verifDir, "evidence", "replay")
	_ = os.MkdirAll(replayDir, 0o755)
	replay := filepath.Join(replayDir, r.Property+".json")
	if len(viol) > 0 {
		for _, o := range viol {
			fmt.Printf("  violation rule=%s key=%s at %s: %s\n", o.Rule, o.Key, o.Pos, o.Detail)
		}
		b, _ := json.MarshalIndent(map[string]any{"property": r.Property, "tier": r.Tier, "violations": viol}, "", " ")
		_ = os.WriteFile(replay, b, 0o644)
		fmt.Printf("VIOLATION property=%s replay=%s\n", r.Property, replay)
	} else {
		_ = os.Remove(replay)
	}

	// evidence
	samples := []Obligation{}
	perRule := map[string]int{}
	for _, o := range r.Obs {
		if o.Verdict == Info {
			continue
		}
		if perRule[o.Rule] < 4 {
			perRule[o.Rule]++
			samples = append(samples, o)
		}
	}
	if r.Assume == nil {
		r.Assume = []string{}
	}
	r.Assume = append(r.Assume, "the analysed tree type-checks and is what the build compiles (go/packages, no build tags beyond the default)", "the trusted base listed under coverage.trusted_base behaves as stated there")
	if r.Trusted == nil {
		r.Trusted = []string{}
	}
	if r.Notes == nil {
		r.Notes = []string{}
	}
	ruleIDs := []string{}
	for _, s := range r.Stats {
		ruleIDs = append(ruleIDs, s.Rule)
	}
	cov := map[string]any{
		"explanation":       explanation,
		"rules":             r.Stats,
		"rule_ids":          ruleIDs,
		"obligations":       obligations,
		"discharged":        discharged,
		"exceptions":        exceptions,
		"known_findings":    len(knownHit),
		"samples":           samples,
		"trusted_base":      r.Trusted,
		"functions_analysed": r.FuncsAnalysed,
		"checker_cmd":       strings.Join(os.Args, " "),
		"exhaustive":        true,
		"notes":             r.Notes,
	}
	for k, v := range r.Extra {
		cov[k] = v
	}
	ev := map[string]any{
		"property_id": r.Property,
		"tier":        r.Tier,
		"seed":        r.Seed,
		"level":       "other",
		"coverage":    cov,
		"assumptions": r.Assume,
		"wall_s":      time.Since(r.Start).Seconds(),
		"violations":  len(viol),
	}
	b, _ := json.MarshalIndent(ev, "", " ")
	evDir := filepath.Join(verifDir, "evidence")
	_ = os.MkdirAll(evDir, 0o755)
	if err := os.WriteFile(filepath.Join(evDir, r.Property+".json"), append(b, '\n'), 0o644); err != nil {
		fmt.Println("cannot write evidence:", err)
		return 2
	}
	fmt.Printf("property=%s tier=%s rules=%d obligations=%d discharged=%d exceptions=%d known=%d violations=%d wall=%.1fs\n",
		r.Property, r.Tier, len(r.Stats), obligations, discharged, exceptions, len(knownHit), len(viol), time.Since(r.Start).Seconds())
	if len(viol) > 0 {
		return 1
	}
	return 0
}
