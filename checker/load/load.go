// Package load type-checks /repo (or another root given with -repo) and gives the
// rules a uniform view of it: typed syntax of the module's own non-test packages,
// optional SSA form and VTA call graph.  Nothing from the analysed module is executed.
package load

import (
	"fmt"
	"go/ast"
	"go/token"
	"go/types"
	"os"
	"path/filepath"
	"sort"
	"strings"

	"golang.org/x/tools/go/callgraph"
	"golang.org/x/tools/go/callgraph/cha"
	"golang.org/x/tools/go/callgraph/vta"
	"golang.org/x/tools/go/packages"
	"golang.org/x/tools/go/ssa"
	"golang.org/x/tools/go/ssa/ssautil"
)

const ModulePath = "github.com/jsightapi/jsight-api-go-library"

// Pkg and FuncDecl are aliases so that callers need not import go/packages and go/ast.
type (
	Pkg      = packages.Package
	FuncDecl = ast.FuncDecl
)

// Program is the loaded repository.
type Program struct {
	Root  string
	Fset  *token.FileSet
	All   []*packages.Package          // every package reachable (repo + deps)
	Repo  []*packages.Package          // non-test, non-internal packages of the module, sorted by path
	ByRel map[string]*packages.Package // "core" -> package

	ssaProg *ssa.Program
	cg      *callgraph.Graph
	funcOf  map[*types.Func]*ast.FuncDecl
	pkgOfFn map[*ast.FuncDecl]*packages.Package

	loadedPkgs []*packages.Package

	// Normalised lists the rewrites applied to the loaded syntax (normalise.go).
	Normalised []string
}

// Load loads root/... and fails on any error: an analysis of a partially
// type-checked tree would pass vacuously.
func Load(root string) (*Program, error) {
	env := []string{}
	for _, kv := range os.Environ() {
		if strings.HasPrefix(kv, "GOWORK=") || strings.HasPrefix(kv, "GOFLAGS=") ||
			strings.HasPrefix(kv, "GOPROXY=") || strings.HasPrefix(kv, "GOSUMDB=") ||
			strings.HasPrefix(kv, "GOTOOLCHAIN=") {
			continue
		}
		env = append(env, kv)
	}
	env = append(env, "GOWORK=off", "GOFLAGS=-mod=mod", "GOPROXY=off", "GOSUMDB=off", "GOTOOLCHAIN=local")
	cfg := &packages.Config{
		Mode:  packages.LoadAllSyntax,
		Dir:   root,
		Env:   env,
		Tests: false,
	}
	pkgs, err := packages.Load(cfg, "./...")
	if err != nil {
		return nil, fmt.Errorf("packages.Load: %w", err)
	}
	if len(pkgs) == 0 {
		return nil, fmt.Errorf("no packages loaded from %s", root)
	}
	p := &Program{Root: root, ByRel: map[string]*packages.Package{}, funcOf: map[*types.Func]*ast.FuncDecl{}, pkgOfFn: map[*ast.FuncDecl]*packages.Package{}}
	var errs []string
	packages.Visit(pkgs, nil, func(pk *packages.Package) {
		p.All = append(p.All, pk)
		for _, e := range pk.Errors {
			errs = append(errs, pk.PkgPath+": "+e.Error())
		}
	})
	if len(errs) != 0 {
		sort.Strings(errs)
		if len(errs) > 10 {
			errs = errs[:10]
		}
		return nil, fmt.Errorf("type-check errors (analysis refused):\n  %s", strings.Join(errs, "\n  "))
	}
	for _, pk := range pkgs {
		if !strings.HasPrefix(pk.PkgPath, ModulePath) {
			continue
		}
		rel := strings.TrimPrefix(strings.TrimPrefix(pk.PkgPath, ModulePath), "/")
		if rel == "" {
			rel = "."
		}
		if strings.HasPrefix(rel, "internal") || strings.HasPrefix(rel, "test") {
			continue
		}
		p.Repo = append(p.Repo, pk)
		p.ByRel[rel] = pk
		p.Fset = pk.Fset
	}
	sort.Slice(p.Repo, func(i, j int) bool { return p.Repo[i].PkgPath < p.Repo[j].PkgPath })
	if len(p.Repo) == 0 {
		return nil, fmt.Errorf("no repository packages found under %s", root)
	}
	for _, pk := range p.Repo {
		for _, f := range pk.Syntax {
			for _, d := range f.Decls {
				if fd, ok := d.(*ast.FuncDecl); ok {
					if obj, ok := pk.TypesInfo.Defs[fd.Name].(*types.Func); ok {
						p.funcOf[obj] = fd
						p.pkgOfFn[fd] = pk
					}
				}
			}
		}
	}
	p.loadedPkgs = pkgs
	p.inlineStageRunners()
	return p, nil
}

// Pkg returns the repo package with the given module-relative path or nil.
func (p *Program) Pkg(rel string) *packages.Package { return p.ByRel[rel] }

// Decl returns the syntax of a repo function.
func (p *Program) Decl(f *types.Func) *ast.FuncDecl {
	if f == nil {
		return nil
	}
	return p.funcOf[f.Origin()]
}

// PkgOfDecl returns the package a function declaration belongs to.
func (p *Program) PkgOfDecl(fd *ast.FuncDecl) *packages.Package { return p.pkgOfFn[fd] }

// Funcs calls fn for every function declaration with a body in the repo packages,
// in deterministic order.
func (p *Program) Funcs(fn func(pk *packages.Package, fd *ast.FuncDecl)) {
	for _, pk := range p.Repo {
		for _, f := range pk.Syntax {
			if p.IsTestFile(f) {
				continue
			}
			for _, d := range f.Decls {
				if fd, ok := d.(*ast.FuncDecl); ok && fd.Body != nil {
					fn(pk, fd)
				}
			}
		}
	}
}

func (p *Program) IsTestFile(f *ast.File) bool {
	return strings.HasSuffix(p.Fset.Position(f.Pos()).Filename, "_test.go")
}

// Pos renders a position relative to the repo root.
func (p *Program) Pos(pos token.Pos) string {
	if !pos.IsValid() {
		return "-"
	}
	ps := p.Fset.Position(pos)
	rel, err := filepath.Rel(p.Root, ps.Filename)
	if err != nil || strings.HasPrefix(rel, "..") {
		rel = ps.Filename
	}
	return fmt.Sprintf("%s:%d:%d", rel, ps.Line, ps.Column)
}

// FuncName gives a stable package-qualified name: core.(*JApiCore).next
func FuncName(f *types.Func) string {
	if f == nil {
		return "<nil>"
	}
	pk := ""
	if f.Pkg() != nil {
		pk = strings.TrimPrefix(strings.TrimPrefix(f.Pkg().Path(), ModulePath), "/")
		if pk == "" {
			pk = f.Pkg().Name()
		}
	}
	sig, _ := f.Type().(*types.Signature)
	if sig != nil && sig.Recv() != nil {
		t := sig.Recv().Type()
		star := ""
		if pt, ok := t.(*types.Pointer); ok {
			t = pt.Elem()
			star = "*"
		}
		name := types.TypeString(t, func(*types.Package) string { return "" })
		return fmt.Sprintf("%s.(%s%s).%s", pk, star, name, f.Name())
	}
	return pk + "." + f.Name()
}

// DeclName is FuncName for a declaration.
func (p *Program) DeclName(fd *ast.FuncDecl) string {
	pk := p.pkgOfFn[fd]
	if pk == nil {
		return fd.Name.Name
	}
	if obj, ok := pk.TypesInfo.Defs[fd.Name].(*types.Func); ok {
		return FuncName(obj)
	}
	return fd.Name.Name
}

// ---------------------------------------------------------------- SSA / call graph

// SSA builds (once) the SSA form of the whole program.
func (p *Program) SSA() *ssa.Program {
	if p.ssaProg == nil {
		prog, _ := ssautil.AllPackages(p.loadedPkgs, ssa.InstantiateGenerics)
		prog.Build()
		p.ssaProg = prog
	}
	return p.ssaProg
}

// CallGraph builds (once) the VTA call graph seeded with CHA.
func (p *Program) CallGraph() *callgraph.Graph {
	if p.cg == nil {
		prog := p.SSA()
		p.cg = vta.CallGraph(ssautil.AllFunctions(prog), cha.CallGraph(prog))
	}
	return p.cg
}

// IsRepoFunc reports whether an SSA function belongs to the analysed module's
// non-test packages (closures and instantiations included).
func (p *Program) IsRepoFunc(f *ssa.Function) bool {
	for f != nil && f.Parent() != nil {
		f = f.Parent()
	}
	if f == nil {
		return false
	}
	if o := f.Origin(); o != nil {
		f = o
	}
	var pk *types.Package
	if f.Pkg != nil {
		pk = f.Pkg.Pkg
	} else if f.Object() != nil {
		pk = f.Object().Pkg()
	}
	if pk == nil {
		return false
	}
	rel := strings.TrimPrefix(strings.TrimPrefix(pk.Path(), ModulePath), "/")
	if !strings.HasPrefix(pk.Path(), ModulePath) {
		return false
	}
	return p.ByRel[relOrDot(rel)] != nil
}

func relOrDot(rel string) string {
	if rel == "" {
		return "."
	}
	return rel
}

// SSAFunc returns the SSA function of a types.Func in the repo.
func (p *Program) SSAFunc(f *types.Func) *ssa.Function {
	return p.SSA().FuncValue(f)
}
