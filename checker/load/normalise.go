package load

import (
	"fmt"
	"go/ast"
	"go/token"
	"go/types"

	"golang.org/x/tools/go/packages"
)

// Normalisation of one higher-order idiom before the rules look at the tree.
//
// A *stage runner* is a repository function
//
//	func R(stages ...func() E) E {
//		for _, run := range stages {
//			if e := run(); e != nil {
//				return e
//			}
//		}
//		return nil
//	}
//
// and `return R(a, b, c)` means exactly
//
//	if e := a(); e != nil { return e }
//	if e := b(); e != nil { return e }
//	return c()
//
// The order rules (dominance, "runs before", who calls whom) are written over calls in
// a function's flow graph. Rather than teaching each of them the list form, the call is
// rewritten in the loaded syntax tree into the chain it stands for. The shape of R is
// verified structurally first; anything else (another iteration order, an error that is
// swallowed, a list built elsewhere) is left alone and the rules then see a dynamic call.
//
// The new nodes reuse the argument expressions (so their type information and positions
// are the original ones) and get the type information of the original call expression.
// The SSA form, if a rule wants it, is built from the unmodified tree beforehand.

// stageRunner reports whether fd has the shape above and returns the element parameter.
func stageRunner(info *types.Info, fd *ast.FuncDecl) bool {
	if fd.Body == nil || fd.Recv != nil || fd.Type.Params == nil || len(fd.Type.Params.List) != 1 || len(fd.Type.Params.List[0].Names) != 1 {
		return false
	}
	if fd.Type.Results == nil || len(fd.Type.Results.List) != 1 || len(fd.Type.Results.List[0].Names) > 0 {
		return false
	}
	pobj := info.ObjectOf(fd.Type.Params.List[0].Names[0])
	if pobj == nil {
		return false
	}
	sl, ok := pobj.Type().Underlying().(*types.Slice)
	if !ok {
		return false
	}
	esig, ok := sl.Elem().Underlying().(*types.Signature)
	if !ok || esig.Params().Len() != 0 || esig.Results().Len() != 1 {
		return false
	}
	rt := info.TypeOf(fd.Type.Results.List[0].Type)
	if rt == nil || !types.Identical(rt, esig.Results().At(0).Type()) {
		return false
	}
	switch rt.Underlying().(type) {
	case *types.Pointer, *types.Interface:
	default:
		return false
	}
	if len(fd.Body.List) != 2 {
		return false
	}
	rs, ok := fd.Body.List[0].(*ast.RangeStmt)
	if !ok || rs.Tok != token.DEFINE || rs.Value == nil {
		return false
	}
	if k, ok := rs.Key.(*ast.Ident); rs.Key != nil && (!ok || k.Name != "_") {
		return false
	}
	if x, ok := ast.Unparen(rs.X).(*ast.Ident); !ok || info.ObjectOf(x) != pobj {
		return false
	}
	vid, ok := rs.Value.(*ast.Ident)
	if !ok {
		return false
	}
	vobj := info.ObjectOf(vid)
	isNil := func(e ast.Expr) bool {
		id, ok := ast.Unparen(e).(*ast.Ident)
		return ok && info.ObjectOf(id) == types.Universe.Lookup("nil")
	}
	callOfV := func(e ast.Expr) bool {
		call, ok := ast.Unparen(e).(*ast.CallExpr)
		if !ok || len(call.Args) != 0 {
			return false
		}
		id, ok := ast.Unparen(call.Fun).(*ast.Ident)
		return ok && info.ObjectOf(id) == vobj
	}
	var init *ast.AssignStmt
	var ifs *ast.IfStmt
	switch len(rs.Body.List) {
	case 1:
		ifs, _ = rs.Body.List[0].(*ast.IfStmt)
		if ifs != nil {
			init, _ = ifs.Init.(*ast.AssignStmt)
		}
	case 2:
		init, _ = rs.Body.List[0].(*ast.AssignStmt)
		ifs, _ = rs.Body.List[1].(*ast.IfStmt)
		if ifs != nil && ifs.Init != nil {
			return false
		}
	}
	if init == nil || ifs == nil || ifs.Else != nil || init.Tok != token.DEFINE || len(init.Lhs) != 1 || len(init.Rhs) != 1 || !callOfV(init.Rhs[0]) {
		return false
	}
	eid, ok := init.Lhs[0].(*ast.Ident)
	if !ok {
		return false
	}
	eobj := info.ObjectOf(eid)
	isE := func(e ast.Expr) bool {
		id, ok := ast.Unparen(e).(*ast.Ident)
		return ok && info.ObjectOf(id) == eobj
	}
	cond, ok := ast.Unparen(ifs.Cond).(*ast.BinaryExpr)
	if !ok || cond.Op != token.NEQ || !((isE(cond.X) && isNil(cond.Y)) || (isE(cond.Y) && isNil(cond.X))) {
		return false
	}
	if len(ifs.Body.List) != 1 {
		return false
	}
	ret, ok := ifs.Body.List[0].(*ast.ReturnStmt)
	if !ok || len(ret.Results) != 1 || !isE(ret.Results[0]) {
		return false
	}
	last, ok := fd.Body.List[1].(*ast.ReturnStmt)
	return ok && len(last.Results) == 1 && isNil(last.Results[0])
}

// straightLine: a parameterless literal whose only return is its last statement and which
// defers nothing - calling it on the spot is the same as running its statements in place.
func straightLine(lit *ast.FuncLit) bool {
	if lit.Type.Params != nil && len(lit.Type.Params.List) != 0 {
		return false
	}
	n := len(lit.Body.List)
	if n == 0 {
		return false
	}
	last, ok := lit.Body.List[n-1].(*ast.ReturnStmt)
	if !ok || len(last.Results) != 1 {
		return false
	}
	ok = true
	ast.Inspect(lit.Body, func(x ast.Node) bool {
		switch y := x.(type) {
		case *ast.FuncLit:
			return false
		case *ast.ReturnStmt:
			if y != last {
				ok = false
			}
		case *ast.DeferStmt:
			ok = false
		}
		return true
	})
	return ok
}

// inlineStageRunners rewrites every `return R(a, b, ...)` of the repository packages.
func (p *Program) inlineStageRunners() {
	runners := map[*types.Func]bool{}
	for _, pk := range p.Repo {
		for _, f := range pk.Syntax {
			for _, d := range f.Decls {
				if fd, ok := d.(*ast.FuncDecl); ok && stageRunner(pk.TypesInfo, fd) {
					if obj, ok := pk.TypesInfo.Defs[fd.Name].(*types.Func); ok {
						runners[obj] = true
					}
				}
			}
		}
	}
	if len(runners) == 0 {
		return
	}
	type site struct {
		pk   *packages.Package
		list *[]ast.Stmt
		i    int
		call *ast.CallExpr
		fn   *types.Func
	}
	var sites []site
	for _, pk := range p.Repo {
		info := pk.TypesInfo
		for _, f := range pk.Syntax {
			ast.Inspect(f, func(n ast.Node) bool {
				var list *[]ast.Stmt
				switch b := n.(type) {
				case *ast.BlockStmt:
					list = &b.List
				case *ast.CaseClause:
					list = &b.Body
				case *ast.CommClause:
					list = &b.Body
				}
				if list == nil {
					return true
				}
				for i, st := range *list {
					ret, ok := st.(*ast.ReturnStmt)
					if !ok || len(ret.Results) != 1 {
						continue
					}
					call, ok := ast.Unparen(ret.Results[0]).(*ast.CallExpr)
					if !ok || call.Ellipsis != token.NoPos || len(call.Args) == 0 {
						continue
					}
					var fn *types.Func
					switch fun := ast.Unparen(call.Fun).(type) {
					case *ast.Ident:
						fn, _ = info.ObjectOf(fun).(*types.Func)
					case *ast.SelectorExpr:
						fn, _ = info.ObjectOf(fun.Sel).(*types.Func)
					}
					if fn != nil && runners[fn] {
						sites = append(sites, site{pk, list, i, call, fn})
					}
				}
				return true
			})
		}
	}
	if len(sites) == 0 {
		return
	}
	// the SSA form is built from the tree as written
	p.SSA()
	// several sites in one list: rewrite from the back so the indices stay valid
	for k := len(sites) - 1; k >= 0; k-- {
		s := sites[k]
		info := s.pk.TypesInfo
		tv := info.Types[s.call]
		var nilTV types.TypeAndValue
		for e, t := range info.Types {
			if id, ok := e.(*ast.Ident); ok && id.Name == "nil" && t.IsNil() {
				nilTV = t
				break
			}
		}
		var out []ast.Stmt
		for i, a := range s.call.Args {
			var call ast.Expr
			var pre []ast.Stmt
			if lit, ok := ast.Unparen(a).(*ast.FuncLit); ok && straightLine(lit) {
				// a literal stage `func() E { S...; return X }` called on the spot is S...; X
				n := len(lit.Body.List)
				pre = lit.Body.List[:n-1]
				call = lit.Body.List[n-1].(*ast.ReturnStmt).Results[0]
			} else {
				ce := &ast.CallExpr{Fun: a, Lparen: a.End(), Rparen: a.End()}
				info.Types[ce] = tv
				call = ce
			}
			wrap := func(st ast.Stmt) ast.Stmt {
				if len(pre) == 0 {
					return st
				}
				return &ast.BlockStmt{Lbrace: a.Pos(), List: append(append([]ast.Stmt{}, pre...), st), Rbrace: a.End()}
			}
			if i == len(s.call.Args)-1 {
				out = append(out, wrap(&ast.ReturnStmt{Return: call.Pos(), Results: []ast.Expr{call}}))
				break
			}
			v := types.NewVar(a.Pos(), s.pk.Types, "stageErr", tv.Type)
			def := &ast.Ident{NamePos: a.Pos(), Name: "stageErr"}
			use1 := &ast.Ident{NamePos: a.End(), Name: "stageErr"}
			use2 := &ast.Ident{NamePos: a.End(), Name: "stageErr"}
			nilID := &ast.Ident{NamePos: a.End(), Name: "nil"}
			info.Defs[def] = v
			info.Uses[use1] = v
			info.Uses[use2] = v
			info.Types[use1] = tv
			info.Types[use2] = tv
			info.Uses[nilID] = types.Universe.Lookup("nil")
			info.Types[nilID] = nilTV
			cond := &ast.BinaryExpr{X: use1, OpPos: a.End(), Op: token.NEQ, Y: nilID}
			if bt, ok := types.Universe.Lookup("bool").(*types.TypeName); ok {
				info.Types[cond] = types.TypeAndValue{Type: bt.Type()}
			}
			out = append(out, wrap(&ast.IfStmt{
				If:   call.Pos(),
				Init: &ast.AssignStmt{Lhs: []ast.Expr{def}, TokPos: call.Pos(), Tok: token.DEFINE, Rhs: []ast.Expr{call}},
				Cond: cond,
				Body: &ast.BlockStmt{Lbrace: a.End(), List: []ast.Stmt{&ast.ReturnStmt{Return: a.End(), Results: []ast.Expr{use2}}}, Rbrace: a.End()},
			}))
		}
		nl := append([]ast.Stmt{}, (*s.list)[:s.i]...)
		nl = append(nl, out...)
		nl = append(nl, (*s.list)[s.i+1:]...)
		*s.list = nl
		p.Normalised = append(p.Normalised, fmt.Sprintf("%s: `return %s(...)` read as the chain of its %d stages", p.Pos(s.call.Pos()), s.fn.Name(), len(s.call.Args)))
	}
}
